#!/bin/bash
# runs every property check sequentially; summary lines to stdout
cd /verif
for p in "$@"; do
  s=$(date +%s)
  out=$(timeout 2400 python3-vt -m pyvc check $p 2>&1); rc=$?
  echo "$p rc=$rc $(( $(date +%s) - s ))s :: $(echo "$out" | grep -E "^(VIOLATION|KNOWN|UNDECIDED|ERROR)" | head -4 | cut -c1-160 | tr '\n' '|') $(echo "$out" | grep " quick: " | cut -c1-140)"
done
