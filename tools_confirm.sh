#!/bin/bash
# confirm seeded changes: tests unchanged (34 pass), demo passes clean, fails with patch
WT=/tmp/confirm_wt
git -C /repo worktree remove --force $WT 2>/dev/null
git -C /repo worktree add -q --detach $WT HEAD
for d in /verif/seeded/*/; do
  id=$(basename $d)
  cd $WT && git checkout -q -- . && git clean -fdq
  clean=$(cd $WT && /venv/bin/python $d/demo.py >/dev/null 2>&1; echo $?)
  if ! git apply $d/patch.diff 2>/dev/null; then echo "$id APPLY-FAILED"; continue; fi
  tests=$(/venv/bin/python -m pytest -q -p no:cacheprovider 2>&1 | tail -1)
  mut=$(/venv/bin/python $d/demo.py >/dev/null 2>&1; echo $?)
  echo "$id clean_demo_exit=$clean patched_demo_exit=$mut tests=[$tests]"
done
cd /; git -C /repo worktree remove --force $WT
