#!/bin/bash
# confirm seeded changes kept under /verif/seeded/<id>-<letter>/ in a scratch worktree (removed afterwards)
# usage: tools_confirm3.sh <letter> ids...   (E: breaking -> demo exit 0 clean / !=0 patched; F, D: benign -> 0 / 0)
letter=$1; shift
WT=/tmp/confirm_wt
git -C /repo worktree remove --force $WT 2>/dev/null
git -C /repo worktree add -q --detach $WT HEAD
base=$(cd $WT && /venv/bin/python -m pytest -q -p no:cacheprovider -rA 2>&1 | grep "^PASSED" | sort | md5sum | cut -c1-8)
for id in "$@"; do
    d=/verif/seeded/$id-$letter
    [ -f $d/patch.diff ] || { echo "$id-$letter MISSING"; continue; }
    cd $WT && git checkout -q -- . && git clean -fdq
    clean=$(cd $WT && timeout 900 /venv/bin/python $d/demo.py >/dev/null 2>&1; echo $?)
    if ! git apply $d/patch.diff 2>/dev/null; then echo "$id-$letter APPLY-FAILED"; continue; fi
    files=$(git status --short | tr '\n' ' ')
    t=$(/venv/bin/python -m pytest -q -p no:cacheprovider -rA 2>&1)
    tests=$(echo "$t" | tail -1)
    passed=$(echo "$t" | grep "^PASSED" | sort | md5sum | cut -c1-8)
    mut=$(timeout 900 /venv/bin/python $d/demo.py >/dev/null 2>&1; echo $?)
    echo "$id-$letter clean_demo_exit=$clean patched_demo_exit=$mut same_passed_ids=$([ $passed = $base ] && echo yes || echo NO) tests=[$tests] files=[$files]"
done
cd /; git -C /repo worktree remove --force $WT
