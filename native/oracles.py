"""
Native oracles: run the *real* library (the tree named by CVSS_REPO, default /repo) under the
interpreter that executes this file and compare it with the executable specification.
Used for (1) replaying counter-examples found by the verifier, (2) the bounded stand-in when a
function falls outside the verifier's subset, (3) cross-checking the verifier against CPython.

Every check_* function takes one input (a dict) and returns None when the property holds on it,
or a short string describing the violation.
"""
from __future__ import annotations

import os
import sys
from fractions import Fraction as F

REPO = os.environ.get("CVSS_REPO", "/repo")
VERIF = os.path.dirname(os.path.dirname(os.path.abspath(__file__)))
if REPO not in sys.path:
    sys.path.insert(0, REPO)
if VERIF not in sys.path:
    sys.path.insert(1, VERIF)

from spec import v2 as S2, v3 as S3  # noqa: E402


def lib():
    import cvss  # noqa

    assert os.path.abspath(cvss.__file__).startswith(os.path.abspath(REPO)), cvss.__file__
    return cvss


def parse_fields(vector, prefix_len):
    parts = vector.split("/")[prefix_len:]
    return dict(p.split(":") for p in parts)


def fl(x):
    return None if x is None else x.numerator / x.denominator


def same_float(a, b):
    import struct

    if a is None or b is None:
        return a is None and b is None
    return isinstance(a, float) and struct.pack(">d", a) == struct.pack(">d", b)


def check_C01(inp):
    vector = inp["vector"]
    c = lib().CVSS3(vector)
    minor = int(vector[7])
    o = parse_fields(vector, 1)
    exp = tuple(fl(x) for x in S3.scores(minor, o))
    got = c.scores()
    if not (isinstance(got, tuple) and len(got) == 3 and all(same_float(g, e) for g, e in zip(got, exp))):
        return "scores() = %r, specification = %r" % (got, exp)
    # internal fields too (Decimal): equal value
    for name, e in zip(("base_score", "temporal_score", "environmental_score"), exp):
        v = getattr(c, name)
        if v is None or F(str(v)) != F(str(e)):
            return "%s = %r, specification = %r" % (name, v, e)
    return None


def check_C03(inp):
    vector = inp["vector"]
    c = lib().CVSS2(vector)
    o = parse_fields(vector, 0)
    exp = tuple(fl(x) for x in S2.scores(o))
    got = c.scores()
    if not (isinstance(got, tuple) and len(got) == 3 and all(same_float(g, e) for g, e in zip(got, exp))):
        return "scores() = %r, specification = %r" % (got, exp)
    return None


CHECKS = {k[6:]: v for k, v in list(globals().items()) if k.startswith("check_")}
