"""
Native oracles: run the *real* library (the tree named by CVSS_REPO, default /repo) under the
interpreter that executes this file and compare it with the executable specification.
Used for (1) replaying counter-examples found by the verifier, (2) the bounded stand-in when a
function falls outside the verifier's subset, (3) cross-checking the verifier against CPython.

Every check_* function takes one input (a dict) and returns None when the property holds on it,
or a short string describing the violation.
"""
from __future__ import annotations

import os
import sys
from fractions import Fraction as F

REPO = os.environ.get("CVSS_REPO", "/repo")
VERIF = os.path.dirname(os.path.dirname(os.path.abspath(__file__)))
if REPO not in sys.path:
    sys.path.insert(0, REPO)
if VERIF not in sys.path:
    sys.path.insert(1, VERIF)

from spec import v2 as S2, v3 as S3, v4 as S4  # noqa: E402


def lib():
    import cvss  # noqa

    assert os.path.abspath(cvss.__file__).startswith(os.path.abspath(REPO)), cvss.__file__
    return cvss


def parse_fields(vector, prefix_len):
    parts = vector.split("/")[prefix_len:]
    return dict(p.split(":") for p in parts)


def fl(x):
    return None if x is None else x.numerator / x.denominator


def same_float(a, b):
    import struct

    if a is None or b is None:
        return a is None and b is None
    return isinstance(a, float) and struct.pack(">d", a) == struct.pack(">d", b)


def check_C01(inp):
    vector = inp["vector"]
    c = lib().CVSS3(vector)
    minor = int(vector[7])
    o = parse_fields(vector, 1)
    exp = tuple(fl(x) for x in S3.scores(minor, o))
    got = c.scores()
    if not (isinstance(got, tuple) and len(got) == 3 and all(same_float(g, e) for g, e in zip(got, exp))):
        return "scores() = %r, specification = %r" % (got, exp)
    # internal fields too (Decimal): equal value
    for name, e in zip(("base_score", "temporal_score", "environmental_score"), exp):
        v = getattr(c, name)
        if v is None or F(str(v)) != F(str(e)):
            return "%s = %r, specification = %r" % (name, v, e)
    return None


def check_C02(inp):
    from spec import v4 as S4_

    vector = inp["vector"]
    c = lib().CVSS4(vector)
    o = parse_fields(vector, 1)
    exp = fl(S4_.score(o))
    if not (same_float(c.base_score, exp) and c.scores() == (c.base_score,)):
        return "base_score = %r, scores() = %r, specification = %r" % (c.base_score, c.scores(), exp)
    return None


def check_C03(inp):
    vector = inp["vector"]
    c = lib().CVSS2(vector)
    o = parse_fields(vector, 0)
    exp = tuple(fl(x) for x in S2.scores(o))
    got = c.scores()
    if not (isinstance(got, tuple) and len(got) == 3 and all(same_float(g, e) for g, e in zip(got, exp))):
        return "scores() = %r, specification = %r" % (got, exp)
    return None


CHECKS = {k[6:]: v for k, v in list(globals().items()) if k.startswith("check_")}


# ============================================================================================
# generic helpers over the three versions

import itertools
import json
import random
import re

from spec import names as NM  # noqa: E402
from spec import jsonschema as JS  # noqa: E402
try:
    from spec import v4 as S4  # noqa: E402
except Exception:  # noqa
    S4 = None


def cls_of(ver):
    L = lib()
    return {"2": L.CVSS2, "3": L.CVSS3, "4": L.CVSS4}[ver]


def spec_of(ver):
    return {"2": S2, "3": S3, "4": S4}[ver]


def split_vector(ver, vector):
    """(prefix, [(metric, value)])"""
    if ver == "2":
        return "", [tuple(p.split(":")) for p in vector.split("/")]
    parts = vector.split("/")
    return parts[0] + "/", [tuple(p.split(":")) for p in parts[1:]]


def nd_of(ver):
    return "ND" if ver == "2" else "X"


def spec_scores(ver, vector):
    prefix, fields = split_vector(ver, vector)
    o = dict(fields)
    if ver == "2":
        return tuple(fl(x) for x in S2.scores(o))
    if ver == "3":
        return tuple(fl(x) for x in S3.scores(int(prefix[7]), o))
    return (fl(S4.score(o)),)


def spec_severities(ver, vector):
    prefix, fields = split_vector(ver, vector)
    o = dict(fields)
    if ver == "2":
        return tuple(S2.severity(x) for x in S2.scores(o))
    if ver == "3":
        return tuple(S3.severity(x) for x in S3.scores(int(prefix[7]), o))
    return (S3.severity(S4.score(o)),)


def canon(ver, vector, output_prefix=True):
    prefix, fields = split_vector(ver, vector)
    o = dict(fields)
    order = spec_of(ver).ORDER
    nd = nd_of(ver)
    body = "/".join("%s:%s" % (m, o[m]) for m in order if m in o and o[m] != nd)
    return (prefix if output_prefix else "") + body


def observe(c, ver):
    """every output C05/C07/C18 talk about, as a comparable value"""
    out = {
        "scores": c.scores(),
        "severities": c.severities(),
        "clean": c.clean_vector(),
        "rh": c.rh_vector(),
        "hash_eq_self": (c == c, hash(c) == hash(c)),
    }
    if ver in ("2", "3"):
        out["tv"] = c.temporal_vector()
        out["ev"] = c.environmental_vector()
    if ver in ("3", "4"):
        out["clean_noprefix"] = c.clean_vector(output_prefix=False)
    if ver == "4":
        out["severity_attr"] = c.severity
    return out


def all_observe(c, ver):
    out = observe(c, ver)
    for s in (False, True):
        for m in (False, True):
            d = c.as_json(sort=s, minimal=m)
            out["json_%s_%s" % (s, m)] = (list(d.items()), type(d).__name__)
    return out


def variants(ver, vector, rng, n=6):
    """equivalent spellings: permuted fields, optional metrics added / removed as Not Defined"""
    prefix, fields = split_vector(ver, vector)
    sp = spec_of(ver)
    nd = nd_of(ver)
    present = dict(fields)
    optional = [m for m in sp.ORDER if m not in sp.BASE]
    out = []
    for _ in range(n):
        fs = [(m, v) for m, v in fields if not (v == nd and rng.random() < 0.5)]
        for m in optional:
            if m not in present and rng.random() < 0.4:
                fs.append((m, nd))
        rng.shuffle(fs)
        out.append(prefix + "/".join("%s:%s" % f for f in fs))
    return out


# ---- C05 -------------------------------------------------------------------------------------
def check_C05(inp):
    ver, vector = inp["version"], inp["vector"]
    C = cls_of(ver)
    rng = random.Random(inp.get("seed", 0))
    ref = C(vector)
    want = observe(ref, ver)
    for v in variants(ver, vector, rng):
        c = C(v)
        got = observe(c, ver)
        if got != want:
            diff = [k for k in want if got[k] != want[k]]
            return "spelling %r differs from %r in %s: %r vs %r" % (v, vector, diff, got[diff[0]], want[diff[0]])
        if not (c == ref and ref == c and hash(c) == hash(ref)):
            return "spelling %r is not equal / hashes differently from %r" % (v, vector)
    return None


# ---- C06 -------------------------------------------------------------------------------------
EQUIV = {
    "2": {"E": "H", "RL": "U", "RC": "C", "CDP": "N", "TD": "H", "CR": "M", "IR": "M", "AR": "M"},
    "3": {"E": "H", "RL": "U", "RC": "C", "CR": "M", "IR": "M", "AR": "M"},
    "4": {"E": "A", "CR": "H", "IR": "H", "AR": "H"},
}
SUPPLEMENTAL4 = ["S", "AU", "R", "V", "RE", "U"]


def defined_scores_equal(a, b):
    return all(x == y for x, y in zip(a, b) if x is not None and y is not None)


def check_C06(inp):
    ver, vector = inp["version"], inp["vector"]
    C = cls_of(ver)
    sp = spec_of(ver)
    nd = nd_of(ver)
    prefix, fields = split_vector(ver, vector)
    o = dict(fields)
    base = C(vector).scores()

    def build(d):
        return prefix + "/".join("%s:%s" % (m, d[m]) for m in sp.ORDER if m in d)

    # (a) a Not Defined modified metric set to its base value
    if ver in ("3", "4"):
        for m in sp.MODIFIED:
            if o.get(m, "X") == "X":
                d = dict(o)
                d[m] = o[m[1:]]
                s = C(build(d)).scores()
                if s != base:
                    return "(a) %s:X -> %s:%s changes scores %r -> %r" % (m, m, o[m[1:]], base, s)
    # (b) a Not Defined metric set to the declared-equivalent value
    for m, eq in EQUIV[ver].items():
        if o.get(m, nd) == nd:
            d = dict(o)
            d[m] = eq
            s = C(build(d)).scores()
            if not defined_scores_equal(s, base):
                return "(b) %s:%s -> %s:%s changes a defined score %r -> %r" % (m, nd, m, eq, base, s)
    # (c) v4 supplemental metrics
    if ver == "4":
        for m in SUPPLEMENTAL4:
            for val in sp.VALUES[m]:
                d = dict(o)
                d[m] = val
                s = C(build(d)).scores()
                if s != base:
                    return "(c) supplemental %s:%s changes the score %r -> %r" % (m, val, base, s)
            d = dict(o)
            d.pop(m, None)
            if C(build(d)).scores() != base:
                return "(c) removing supplemental %s changes the score" % m
    # (d) an overridden base metric does not matter for the v3 environmental / v4 score
    if ver in ("3", "4"):
        for m in sp.MODIFIED:
            if o.get(m, "X") != "X":
                bm = m[1:]
                for val in sp.VALUES[bm]:
                    d = dict(o)
                    d[bm] = val
                    s = C(build(d)).scores()
                    if ver == "3" and s[2] != base[2]:
                        return "(d) %s overridden by %s: base value %s changes env score %r -> %r" % (bm, m, val, base[2], s[2])
                    if ver == "4" and s != base:
                        return "(d) %s overridden by %s: base value %s changes score %r -> %r" % (bm, m, val, base, s)
    # (e) temporal / environmental metrics never change the base score, nor env the temporal
    if ver in ("2", "3"):
        only_base = {m: o[m] for m in sp.BASE}
        if C(build(only_base)).scores()[0] != base[0]:
            return "(e) optional metrics change the base score"
        bt = {m: o[m] for m in sp.BASE + sp.TEMPORAL if m in o}
        st = C(build(bt)).scores()[1]
        if st is not None and base[1] is not None and st != base[1]:
            return "(e) environmental metrics change the temporal score %r -> %r" % (st, base[1])
    return None


# ---- C07 -------------------------------------------------------------------------------------
def check_C07(inp):
    ver, vector = inp["version"], inp["vector"]
    C = cls_of(ver)
    c = C(vector)
    want = canon(ver, vector)
    got = c.clean_vector()
    if got != want:
        return "clean_vector() = %r, canonical form = %r" % (got, want)
    if ver != "2":
        g2 = c.clean_vector(output_prefix=False)
        if g2 != canon(ver, vector, False):
            return "clean_vector(output_prefix=False) = %r" % (g2,)
        if c.clean_vector() != want:
            return "clean_vector() after clean_vector(output_prefix=False) = %r" % (c.clean_vector(),)
    d = C(got)
    if not (d == c and c == d and hash(d) == hash(c)):
        return "re-parsed cleaned vector is not equal to the original object"
    if d.scores() != c.scores() or d.clean_vector() != got or d.severities() != c.severities():
        return "re-parsed cleaned vector has different scores / cleaned vector"
    if c == vector or c == 1 or c == None:  # noqa: E711
        return "object equals a value of another type"
    # pairs: equality iff same version and same defined metrics
    other = inp.get("other")
    if other:
        ov, ovec = other["version"], other["vector"]
        e = cls_of(ov)(ovec)
        same = ov == ver and canon(ov, ovec) == want
        if (c == e) != same or (e == c) != same:
            return "%r == %r is %r, expected %r" % (vector, ovec, c == e, same)
        if same and hash(c) != hash(e):
            return "equal objects hash differently"
    return None


# ---- C08 -------------------------------------------------------------------------------------
def official_pattern(ver, vector=None):
    if ver == "2":
        return JS.load("2.0")["properties"]["vectorString"]["pattern"]
    if ver == "4":
        return JS.load("4.0")["properties"]["vectorString"]["pattern"]
    minor = vector[7] if vector else "1"
    return JS.load("3.%s" % minor)["properties"]["vectorString"]["pattern"]


def check_C08(inp):
    ver, vector = inp["version"], inp["vector"]
    C = cls_of(ver)
    c = C(vector)
    seqs = [("clean_vector", lambda: c.clean_vector()), ("rh_vector", lambda: c.rh_vector().split("/", 1)[1])]
    if ver != "2":
        # the order of calls must not matter
        c.clean_vector(output_prefix=False)
    for name, f in seqs:
        s = f()
        try:
            C(s)
        except Exception as e:  # noqa
            return "%s() = %r is rejected by the library's own parser: %s" % (name, s, type(e).__name__)
        if re.search(official_pattern(ver, s), s) is None:
            return "%s() = %r does not match the official vectorString pattern" % (name, s)
    return None


# ---- C09 -------------------------------------------------------------------------------------
def one_decimal(x):
    return isinstance(x, float) and 0.0 <= x <= 10.0 and repr(x) == "%.1f" % x and str(x)[0] != "-"


def check_C09(inp):
    ver, vector = inp["version"], inp["vector"]
    C = cls_of(ver)
    c = C(vector)
    sc = c.scores()
    sev = c.severities()
    for i, x in enumerate(sc):
        if x is None:
            if not (ver == "2" and i > 0):
                return "score %d is None" % i
            continue
        if not one_decimal(x):
            return "score %r is not a one-decimal float in [0, 10]" % (x,)
    want = spec_severities(ver, vector)
    exp_from_reported = []
    for x in sc:
        if ver == "2":
            exp_from_reported.append(S2.severity(None if x is None else F(repr(x))))
        else:
            exp_from_reported.append(S3.severity(F(repr(x))))
    if tuple(sev) != tuple(exp_from_reported):
        return "severities() = %r but the official scale gives %r for scores %r" % (sev, tuple(exp_from_reported), sc)
    if ver == "4" and c.severity != sev[0]:
        return "severity attribute %r != severities()[0] %r" % (c.severity, sev[0])
    d = c.as_json()
    keys = ["baseSeverity", "temporalSeverity", "environmentalSeverity"]
    if ver in ("3", "4"):
        for k, s in zip(keys, sev):
            if k in d and str(d[k]).upper() != s.upper():
                return "JSON %s = %r disagrees with severities() %r" % (k, d[k], s)
    rh = c.rh_vector().split("/", 1)[0]
    if rh != "%.1f" % sc[0]:
        return "rh_vector prints the score as %r" % rh
    return None


# ---- C10 -------------------------------------------------------------------------------------
def schema_version(ver, vector):
    return {"2": "2.0", "4": "4.0"}.get(ver) or "3.%s" % vector[7]


def check_C10(inp):
    ver, vector = inp["version"], inp["vector"]
    C = cls_of(ver)
    c = C(vector)
    root = JS.load(schema_version(ver, vector))
    skip_known = inp.get("skip_fragments", [])
    known = inp.get("known", []) if ver == "4" else []
    for s in (False, True):
        for m in (False, True):
            doc = json.loads(json.dumps(c.as_json(sort=s, minimal=m)))
            if not isinstance(doc, dict):
                return "as_json does not produce a JSON object"
            for k in root.get("required", []):
                if k not in doc:
                    return "sort=%s minimal=%s: required field %s missing" % (s, m, k)
            for name, props, frag in JS.fragments(root):
                if name in skip_known:
                    continue
                sub = {p: doc[p] for p in props if p in doc}
                # listed findings: the neighbouring statement is checked instead
                if "v4-baseSeverity-case" in known and name.startswith("allOf/"):
                    sub = {k: (v.upper() if isinstance(v, str) else v) for k, v in sub.items()}
                if "v4-vectorString-order" in known and name == "properties/vectorString" and isinstance(sub.get("vectorString"), str):
                    fs = sub["vectorString"].split("/")
                    order = {mm: i for i, mm in enumerate(S4.ORDER)}
                    if all(f.split(":")[0] in order for f in fs[1:]):
                        sub = {"vectorString": "/".join(fs[:1] + sorted(fs[1:], key=lambda f: order[f.split(":")[0]]))}
                if not JS.valid(root, frag, sub):
                    return "sort=%s minimal=%s: schema fragment %s violated by %r" % (s, m, name, sub)
    return None


# ---- C11 -------------------------------------------------------------------------------------
def json_keys(ver):
    return {"2": NM.V2_KEYS, "3": NM.V3_KEYS, "4": NM.V4_KEYS}[ver]


def json_values(ver):
    return {"2": NM.V2_VALUES, "3": NM.V3_VALUES, "4": NM.V4_VALUES}[ver]


def effective(ver, o):
    sp = spec_of(ver)
    nd = nd_of(ver)
    e = {}
    for m in sp.ORDER:
        v = o.get(m, nd)
        if ver in ("3", "4") and m in sp.MODIFIED and v == "X":
            v = o[m[1:]]
        e[m] = v
    return e


def check_C11(inp):
    ver, vector = inp["version"], inp["vector"]
    C = cls_of(ver)
    c = C(vector)
    prefix, fields = split_vector(ver, vector)
    o = dict(fields)
    sp = spec_of(ver)
    nd = nd_of(ver)
    e = effective(ver, o)
    keys, vals = json_keys(ver), json_values(ver)
    scores = c.scores()
    sevs = c.severities()
    groups = []
    if ver in ("2", "3"):
        groups = [("temporal", sp.TEMPORAL, 1), ("environmental", sp.ENVIRONMENTAL, 2)]
    ref = None
    for s in (False, True):
        for m in (False, True):
            d = c.as_json(sort=s, minimal=m)
            tag = "sort=%s minimal=%s: " % (s, m)
            if d.get("vectorString") != vector:
                return tag + "vectorString = %r" % (d.get("vectorString"),)
            want_version = {"2": "2.0", "4": "4.0"}.get(ver) or "3.%s" % prefix[7]
            if d.get("version") != want_version:
                return tag + "version = %r" % (d.get("version"),)
            if d.get("baseScore") != scores[0]:
                return tag + "baseScore = %r, scores()[0] = %r" % (d.get("baseScore"), scores[0])
            if ver != "2" and str(d.get("baseSeverity")).upper() != sevs[0].upper():
                return tag + "baseSeverity = %r" % (d.get("baseSeverity"),)
            for mt in sp.BASE:
                if d.get(keys[mt]) != vals[mt][e[mt]]:
                    return tag + "%s = %r, effective value %s:%s" % (keys[mt], d.get(keys[mt]), mt, e[mt])
            if ver == "4":
                for mt in sp.ORDER:
                    if d.get(keys[mt]) != vals[mt][e[mt]]:
                        return tag + "%s = %r, effective value %s:%s" % (keys[mt], d.get(keys[mt]), mt, e[mt])
            for gname, metrics, idx in groups:
                present = [keys[mt] in d for mt in metrics] + [gname + "Score" in d]
                if ver == "3":
                    present.append(gname + "Severity" in d)
                if any(present) != all(present):
                    return tag + "%s group is partially present" % gname
                defined = any(o.get(mt, nd) != nd for mt in metrics)
                if not all(present):
                    if not m:
                        return tag + "%s group missing although minimal is off" % gname
                    if defined:
                        return tag + "%s group dropped although %s defines a value" % (gname, [mt for mt in metrics if o.get(mt, nd) != nd])
                    continue
                for mt in metrics:
                    if d[keys[mt]] != vals[mt][e[mt]]:
                        return tag + "%s = %r, effective value %s:%s" % (keys[mt], d[keys[mt]], mt, e[mt])
                if scores[idx] is not None and d[gname + "Score"] != scores[idx]:
                    return tag + "%sScore = %r, score = %r" % (gname, d[gname + "Score"], scores[idx])
                if ver == "3" and str(d[gname + "Severity"]).upper() != sevs[idx].upper():
                    return tag + "%sSeverity = %r, rating = %r" % (gname, d[gname + "Severity"], sevs[idx])
            if s and list(d.keys()) != sorted(d.keys()):
                return tag + "keys are not ascending"
            if m is False:
                if ref is None:
                    ref = dict(d)
                elif dict(d) != ref:
                    return tag + "sort changes the content"
    # another object with an equivalent spelling must report its own input string
    rng = random.Random(3)
    for v2_ in variants(ver, vector, rng, 2):
        d2 = C(v2_).as_json()
        if d2.get("vectorString") != v2_:
            return "as_json() of %r reports vectorString %r" % (v2_, d2.get("vectorString"))
    return None


# ---- C12 -------------------------------------------------------------------------------------
def check_C12(inp):
    ver, vector = inp["version"], inp["vector"]
    C = cls_of(ver)
    L = lib()
    ex = L.exceptions if hasattr(L, "exceptions") else __import__("cvss.exceptions").exceptions
    c = C(vector)
    base = c.scores()[0]
    rh = c.rh_vector()
    if rh != "%.1f/%s" % (base, canon(ver, vector)):
        return "rh_vector() = %r" % rh
    back = C.from_rh_vector(rh)
    if not (back == c and back.scores() == c.scores()):
        return "from_rh_vector(rh_vector()) is not equal to the object"
    RHM = getattr(ex, "CVSS%sRHMalformedError" % ver)
    RHS = getattr(ex, "CVSS%sRHScoreDoesNotMatch" % ver)
    MAL = getattr(ex, "CVSS%sMalformedError" % ver)
    # numerically equal spellings are accepted, anything else is a mismatch
    for text, ok in (("%.1f" % base, True), ("%.2f" % base, True), (" %s " % base, True),
                     ("%.7f" % (base + 4e-7), False), ("%.1f" % ((base + 0.1) if base < 10 else base - 0.1), False),
                     ("%s" % (base + 1e-9), False), ("nan", False), ("inf", False)):
        try:
            C.from_rh_vector(text + "/" + vector)
            got = True
        except RHS:
            got = False
        except Exception as e:  # noqa
            return "from_rh_vector(%r/...) raises %s" % (text, type(e).__name__)
        if got != ok:
            return "from_rh_vector(%r/<vector with score %s>) %s" % (text, base, "accepted" if got else "rejected")
    for bad in ("", "x", "1.0.0", "0x10"):
        try:
            C.from_rh_vector(bad + "/" + vector)
            return "from_rh_vector accepts the non-numeric score %r" % bad
        except RHM:
            pass
        except Exception as e:  # noqa
            return "from_rh_vector(%r/...) raises %s instead of the RH-malformed error" % (bad, type(e).__name__)
    try:
        C.from_rh_vector(vector.replace("/", ""))
        return "from_rh_vector accepts a string without '/'"
    except (RHM,):
        pass
    except Exception as e:  # noqa
        return "from_rh_vector(no slash) raises %s" % type(e).__name__
    # an invalid vector part raises the ordinary malformed-vector error, whatever the score part
    for tail in ("%s/ZZ:Q" % vector, "", "/", " ", "garbage", "/" + vector, vector + "/"):
        try:
            C.from_rh_vector("%.1f/%s" % (base, tail))
            return "from_rh_vector accepts the invalid vector part %r" % tail
        except MAL:
            pass
        except Exception as e:  # noqa
            return "invalid vector part %r raises %s instead of the malformed-vector error" % (tail, type(e).__name__)
    return None


# ---- C15 -------------------------------------------------------------------------------------
def check_C15(inp):
    ver, vector = inp["version"], inp["vector"]
    if ver not in ("2", "3"):
        return None
    C = cls_of(ver)
    c = C(vector)
    sp = spec_of(ver)
    prefix, fields = split_vector(ver, vector)
    o = dict(fields)
    e = effective(ver, o)
    want_t = "/".join("%s:%s" % (m, e[m]) for m in sp.TEMPORAL)
    want_e = "/".join("%s:%s" % (m, e[m]) for m in sp.ENVIRONMENTAL)
    if c.temporal_vector() != want_t:
        return "temporal_vector() = %r, expected %r" % (c.temporal_vector(), want_t)
    if c.environmental_vector() != want_e:
        return "environmental_vector() = %r, expected %r" % (c.environmental_vector(), want_e)
    basev = prefix + "/".join("%s:%s" % (m, o[m]) for m in sp.BASE)
    full = basev + "/" + c.temporal_vector() + "/" + c.environmental_vector()
    if C(full).scores() != c.scores():
        return "re-assembled vector %r scores %r, original %r" % (full, C(full).scores(), c.scores())
    return None


# ---- C18 -------------------------------------------------------------------------------------
def check_C18(inp):
    import copy

    ver, vector = inp["version"], inp["vector"]
    C = cls_of(ver)
    rng = random.Random(inp.get("seed", 0))
    ref = all_observe(C(vector), ver)
    # every observable once more, each on an object nothing else was called on: the order in
    # which all_observe itself calls the accessors must not matter either
    for s_ in (False, True):
        for m_ in (False, True):
            d = C(vector).as_json(sort=s_, minimal=m_)
            k = "json_%s_%s" % (s_, m_)
            if (list(d.items()), type(d).__name__) != ref[k]:
                return "as_json(sort=%s, minimal=%s) on a fresh object differs from the result after other accessor calls: %r vs %r" % (
                    s_, m_, list(d.items())[:30], ref[k][0][:30])
    fresh = {"scores": lambda o: o.scores(), "severities": lambda o: o.severities(), "clean": lambda o: o.clean_vector(), "rh": lambda o: o.rh_vector()}
    if ver in ("3", "4"):
        fresh["clean_noprefix"] = lambda o: o.clean_vector(output_prefix=False)
    if ver in ("2", "3"):
        fresh["tv"] = lambda o: o.temporal_vector()
        fresh["ev"] = lambda o: o.environmental_vector()
    for k, f in fresh.items():
        v_ = f(C(vector))
        if v_ != ref[k]:
            return "%s on a fresh object differs from the result after other accessor calls: %r vs %r" % (k, v_, ref[k])
    c = C(vector)
    names = ["scores", "severities", "clean", "rh", "eq", "hash", "json", "json_min", "json_sort", "clean_np", "tv", "ev"]
    for _ in range(3):
        rng.shuffle(names)
        for n in names + names:
            if n == "scores":
                c.scores()
            elif n == "severities":
                c.severities()
            elif n == "clean":
                c.clean_vector()
            elif n == "clean_np" and ver != "2":
                c.clean_vector(output_prefix=False)
            elif n == "rh":
                c.rh_vector()
            elif n == "eq":
                c == C(vector)  # noqa
            elif n == "hash":
                hash(c)
            elif n.startswith("json"):
                d = c.as_json(sort=(n == "json_sort"), minimal=(n == "json_min"))
                d["baseScore"] = "clobbered"
                d["vectorString"] = None
                d.pop("version", None)
                d["extra"] = 1
            elif n == "tv" and ver != "4":
                c.temporal_vector()
            elif n == "ev" and ver != "4":
                c.environmental_vector()
        got = all_observe(c, ver)
        if got != ref:
            diff = [k for k in ref if got.get(k) != ref[k]]
            return "after a sequence of accessor calls %s changed: %r != %r" % (diff[0], got[diff[0]], ref[diff[0]])
        if not (c == C(vector) and hash(c) == hash(C(vector))):
            return "object no longer equal to a fresh object from the same vector"
    return None


# ---- C19 -------------------------------------------------------------------------------------
def snapshot_globals():
    import copy
    import decimal
    import sys as _sys
    import warnings

    L = lib()
    snap = {}
    for name, mod in list(_sys.modules.items()):
        if name == "cvss" or name.startswith("cvss."):
            d = {}
            for k, v in vars(mod).items():
                if k.startswith("__") or callable(v) or isinstance(v, type(_sys)) or type(v).__name__ == "_Feature":
                    continue
                try:
                    d[k] = copy.deepcopy(v)
                except Exception:  # noqa
                    d[k] = repr(v)
            snap[name] = d
    ctx = decimal.getcontext()
    snap["decimal"] = (ctx.prec, ctx.rounding, ctx.Emin, ctx.Emax, dict(ctx.traps))
    snap["path"] = list(_sys.path)
    snap["warnings"] = list(warnings.filters)
    for name, mod in list(_sys.modules.items()):
        if name == "cvss" or name.startswith("cvss."):
            for k, v in vars(mod).items():
                if isinstance(v, type) and v.__module__ == name:
                    snap[name + "." + k] = {a: repr(b) for a, b in vars(v).items() if not callable(b) and not a.startswith("__")}
    return snap


def check_C19(inp):
    import contextlib
    import decimal
    import io

    ver, vector = inp["version"], inp["vector"]
    C = cls_of(ver)
    L = lib()
    before = snapshot_globals()
    buf_o, buf_e = io.StringIO(), io.StringIO()
    with contextlib.redirect_stdout(buf_o), contextlib.redirect_stderr(buf_e):
        ref = all_observe(C(vector), ver)
        # history: other constructions, failures, serialisations, then the probe again
        rng = random.Random(inp.get("seed", 0))
        for h in inp.get("history", []):
            try:
                x = cls_of(h["version"])(h["vector"])
                x.scores(), x.as_json(minimal=True), x.clean_vector(), hash(x)
            except Exception:  # noqa
                pass
        again = all_observe(C(vector), ver)
        if again != ref:
            diff = [k for k in ref if again.get(k) != ref[k]]
            return "after a history of other calls %s differs: %r != %r" % (diff[0], again[diff[0]], ref[diff[0]])
        for rounding in (decimal.ROUND_FLOOR, decimal.ROUND_CEILING, decimal.ROUND_DOWN, decimal.ROUND_UP,
                         decimal.ROUND_HALF_DOWN, decimal.ROUND_HALF_EVEN, decimal.ROUND_HALF_UP, decimal.ROUND_05UP):
            for prec in (28, 34, 60):
                with decimal.localcontext() as ctx:
                    ctx.rounding = rounding
                    ctx.prec = prec
                    got = all_observe(C(vector), ver)
                if got != ref:
                    diff = [k for k in ref if got.get(k) != ref[k]]
                    return "under decimal context rounding=%s prec=%d %s differs: %r != %r" % (rounding, prec, diff[0], got[diff[0]], ref[diff[0]])
    if buf_o.getvalue() or buf_e.getvalue():
        return "the library wrote to stdout/stderr: %r" % ((buf_o.getvalue() + buf_e.getvalue())[:100],)
    after = snapshot_globals()
    if after != before:
        diff = [k for k in before if after.get(k) != before[k]] + [k for k in after if k not in before]
        return "process-global state changed: %s" % diff[:3]
    return None


CHECKS = {k[6:]: v for k, v in list(globals().items()) if k.startswith("check_")}


def check_C04(inp):
    """acceptance is exactly the grammar; taxonomy of errors; nothing foreign escapes"""
    ver, s = inp["version"], inp["vector"]
    C = cls_of(ver)
    L = lib()
    import cvss.exceptions as ex

    sp = spec_of(ver)
    prefixes = {"2": [""], "3": ["CVSS:3.0/", "CVSS:3.1/"], "4": ["CVSS:4.0/"]}[ver]
    syn = False
    mand = False
    for p in prefixes:
        if s.startswith(p) and (p or True):
            body = s[len(p):]
            fields = body.split("/")
            ok = True
            seen = set()
            for f in fields:
                parts = f.split(":")
                if len(parts) != 2 or parts[0] not in sp.VALUES or parts[1] not in sp.VALUES[parts[0]] or parts[0] in seen:
                    ok = False
                    break
                seen.add(parts[0])
            if ok:
                syn = True
                mand = all(m in seen for m in sp.BASE)
    MAL = getattr(ex, "CVSS%sMalformedError" % ver)
    MAN = getattr(ex, "CVSS%sMandatoryError" % ver)
    try:
        C(s)
        outcome = "ok"
    except MAL:
        outcome = "malformed"
    except MAN:
        outcome = "mandatory"
    except ex.CVSSError as e:
        return "constructor raised %s for %r" % (type(e).__name__, s)
    except BaseException as e:  # noqa
        return "%s escapes the constructor for %r: %s" % (type(e).__name__, s, e)
    want = "ok" if (syn and mand) else ("mandatory" if syn else "malformed")
    if outcome != want:
        return "%r: outcome %s, grammar says %s" % (s, outcome, want)
    return None


CHECKS = {k[6:]: v for k, v in list(globals().items()) if k.startswith("check_")}


def check_C14(inp):
    """scores of two vectors one severity step apart: `hi` never scores lower than `lo`"""
    ver = inp["version"]
    C = cls_of(ver)
    a, b = C(inp["lo"]).scores(), C(inp["hi"]).scores()
    which = inp.get("which")
    for i, (x, y) in enumerate(zip(a, b)):
        if which is not None and i not in which:
            continue
        if x is None or y is None:
            continue
        if y < x:
            return "score %d drops from %r (%s) to %r (%s)" % (i, x, inp["lo"], y, inp["hi"])
    return None


CHECKS = {k[6:]: v for k, v in list(globals().items()) if k.startswith("check_")}


def run_builder(version, all_metrics, answers, no_colors=True):
    """drive ask_interactively with scripted stdin; returns (result | exception name, unread answers)"""
    import builtins
    import contextlib
    import io

    L = lib()
    from cvss import interactive as IA

    it = iter(answers)
    used = [0]
    eofs = [0]

    class KeepsAsking(BaseException):
        pass

    def fake_input(*a):
        try:
            x = next(it)
        except StopIteration:
            eofs[0] += 1
            if eofs[0] > 200:
                # end of input was signalled 200 times and the builder still asks
                raise KeepsAsking()
            raise EOFError()
        used[0] += 1
        return x

    saved = IA.string_input
    IA.string_input = fake_input
    buf = io.StringIO()
    try:
        with contextlib.redirect_stdout(buf):
            r = IA.ask_interactively(version, all_metrics, no_colors)
    except EOFError:
        r = EOFError
    except KeepsAsking:
        r = "the builder keeps asking after end of input (EOFError raised 200 times by the input function)"
    finally:
        IA.string_input = saved
    return r, used[0], buf.getvalue()


def check_C16(inp):
    """scripted session: the builder returns exactly the first legal answer per metric"""
    version = inp["version"]
    all_metrics = inp["all_metrics"]
    answers = inp["answers"]
    ver = {2: "2", 3.0: "3", 3.1: "3", 4.0: "4"}[version]
    sp = spec_of(ver)
    nd = nd_of(ver)
    prefix = {2: "", 3.0: "CVSS:3.0/", 3.1: "CVSS:3.1/", 4.0: "CVSS:4.0/"}[version]
    metrics = list(sp.ORDER) if all_metrics else list(sp.BASE)
    # expected by the property statement
    pos = 0
    fields = []
    eof = False
    for m in metrics:
        while True:
            if pos >= len(answers):
                eof = True
                break
            a = answers[pos].strip()
            pos += 1
            if a == "":
                a = nd
            hit = [v for v in sp.VALUES[m] if v.upper() == a.upper()]
            if hit:
                fields.append("%s:%s" % (m, hit[0]))
                break
        if eof:
            break
    got, used, out = run_builder(version, all_metrics, answers)
    # a second session in the same process must behave the same (no state carried over)
    got2, used2, _ = run_builder(version, all_metrics, answers)
    if got2 != got or used2 != used:
        return "a second identical session behaves differently: %r vs %r" % (got2, got)
    if eof:
        if got is not EOFError:
            return "end of input: expected EOFError, got %r" % (got,)
        return None
    want = prefix + "/".join(fields)
    if got != want:
        return "answers %r: builder returned %r, expected %r" % (answers[:12], got, want)
    if used != pos:
        return "builder consumed %d answers, expected %d" % (used, pos)
    try:
        cls_of(ver)(got)
    except Exception as e:  # noqa
        return "the class rejects the built vector %r: %s" % (got, type(e).__name__)
    return None


CHECKS = {k[6:]: v for k, v in list(globals().items()) if k.startswith("check_")}


def check_C17(inp):
    """run the calculator as a subprocess and compare its output with the library API"""
    import subprocess

    argv = inp["argv"]
    stdin = inp.get("stdin")
    env = dict(os.environ)
    env["PYTHONPATH"] = REPO
    try:
        p = subprocess.run([sys.executable, "-m", "cvss.cvss_calculator"] + argv, input=stdin if stdin is not None else "",
                           capture_output=True, text=True, env=env, cwd=REPO, timeout=20)
    except subprocess.TimeoutExpired:
        return "the calculator does not terminate within 20 s for %r with %d lines of input" % (argv, len((stdin or "").splitlines()))
    if p.returncode != 0:
        return "exit status %d for %r; stderr: %s" % (p.returncode, argv, p.stderr.strip()[-300:])
    if "Traceback" in p.stderr:
        return "traceback on stderr for %r" % (argv,)
    if "-v" not in argv:
        return None  # interactive sessions: only clean termination is checked here (C16 covers the builder)
    vec = argv[argv.index("-v") + 1]
    ver = "2" if "-2" in argv else "4" if "-4" in argv else "3"
    C = cls_of(ver)
    L = lib()
    out = p.stdout
    try:
        c = C(vec)
    except L.CVSSError as e:
        if out.strip() != str(e).strip():
            return "invalid vector %r: printed %r, library message %r" % (vec, out.strip()[:200], str(e)[:200])
        return None
    lines = out.split("\n")
    exp = ["CVSS" + ver]
    sc = c.scores()
    sv = c.severities()
    for i, nm in enumerate(["Base Score", "Temporal Score", "Environmental Score"][: len(sc)]):
        head = nm + ":" + " " * (24 - len(nm) - 2)
        exp.append(head + (("%s (%s)" % (sc[i], sv[i])) if ver != "2" else "%s" % (sc[i],)))
    exp.append("Cleaned vector:        " + c.clean_vector())
    exp.append("Red Hat vector:        " + c.rh_vector())
    if lines[: len(exp)] != exp:
        bad = [k for k in range(len(exp)) if k >= len(lines) or lines[k] != exp[k]][0]
        return "argv %r: line %d is %r, expected %r" % (argv, bad, lines[bad] if bad < len(lines) else None, exp[bad])
    rest = "\n".join(lines[len(exp):]).strip()
    if "-j" in argv:
        if not rest.startswith("CVSS vector in JSON:"):
            return "-j: JSON header missing"
        doc = json.loads(rest[len("CVSS vector in JSON:"):])
        want = json.loads(json.dumps(c.as_json(sort=True, minimal=True)))
        if doc != want or list(doc.keys()) != list(want.keys()):
            return "-j: printed JSON differs from the sorted minimal as_json()"
    elif rest:
        return "unexpected extra output %r" % rest[:100]
    return None


CHECKS = {k[6:]: v for k, v in list(globals().items()) if k.startswith("check_")}


def check_C13(inp):
    """text extraction: total, sound, complete for delimited vectors, duplicate-free"""
    text = inp["text"]
    expected = inp.get("delimited", [])  # [(version, vector)] placed in the text between delimiters
    L = lib()
    from cvss import parser as P

    try:
        res = P.parse_cvss_from_text(text)
    except BaseException as e:  # noqa
        return "parse_cvss_from_text raised %s: %s" % (type(e).__name__, e)
    if not isinstance(res, list):
        return "result is not a list"
    for o in res:
        ver = {"CVSS2": "2", "CVSS3": "3", "CVSS4": "4"}.get(type(o).__name__)
        if ver is None:
            return "foreign object %r in the result" % (o,)
        v = o.vector
        if v not in text:
            return "object built from %r which is not a substring of the text" % (v,)
        if check_C04({"version": ver, "vector": v}) is not None:
            return "object built from an invalid vector %r" % (v,)
    for i in range(len(res)):
        for j in range(i + 1, len(res)):
            if res[i] == res[j]:
                return "two equal objects returned (%r, %r)" % (res[i].vector, res[j].vector)
    for ver, vec in expected:
        want = cls_of(ver)(vec)
        if not any(type(o) is type(want) and o == want for o in res):
            return "delimited valid v%s vector %r is not returned" % (ver, vec)
    again = P.parse_cvss_from_text(text)
    if [(type(o).__name__, o.vector) for o in again] != [(type(o).__name__, o.vector) for o in res]:
        return "a second call returns the objects in a different order"
    return None


CHECKS = {k[6:]: v for k, v in list(globals().items()) if k.startswith("check_")}


def check_C19seed(inp):
    """outcomes (results, error classes and messages, extraction order) are the same under
    different hash seeds: each seed runs in its own interpreter"""
    import subprocess

    prog = r'''
import json, sys
sys.path.insert(0, %r)
import cvss
from cvss import parser
out = []
for ver, s in json.loads(sys.argv[1]):
    C = {"2": cvss.CVSS2, "3": cvss.CVSS3, "4": cvss.CVSS4}[ver]
    try:
        c = C(s)
        out.append(["ok", c.scores(), c.clean_vector(), list(c.as_json(minimal=True).items())])
    except Exception as e:
        out.append([type(e).__name__, str(e)])
out.append([o.vector for o in parser.parse_cvss_from_text(sys.argv[2])])
print(json.dumps(out))
''' % REPO
    ref = None
    for seed in ("0", "1", "2", "3"):
        env = dict(os.environ)
        env["PYTHONHASHSEED"] = seed
        p = subprocess.run([sys.executable, "-c", prog, json.dumps(inp["strings"]), inp.get("text", "")],
                           capture_output=True, text=True, env=env, timeout=120)
        if p.returncode != 0:
            return "probe failed under PYTHONHASHSEED=%s: %s" % (seed, p.stderr[-300:])
        got = json.loads(p.stdout)
        if ref is None:
            ref = got
        elif got != ref:
            k = [i for i in range(len(ref)) if got[i] != ref[i]][0]
            return "PYTHONHASHSEED=%s changes outcome %d: %r vs %r" % (seed, k, got[k], ref[k])
    return None


CHECKS = {k[6:]: v for k, v in list(globals().items()) if k.startswith("check_")}
