"""
native/run.py -- executes oracle jobs under the interpreter it is started with.
stdin: JSON {"jobs": [{"check": "C01", "input": {...}}, ...], "stop_at_first": bool}
stdout: JSON {"results": [{"ok": bool, "detail": str|None, "error": str|None}, ...]}
"""
import json
import sys
import traceback

import os
sys.path.insert(0, os.path.dirname(os.path.dirname(os.path.abspath(__file__))))
from native import oracles  # noqa: E402


def cvss_error():
    oracles.lib()
    import cvss.exceptions

    return cvss.exceptions.CVSSError


def main():
    req = json.load(sys.stdin)
    out = []
    for job in req["jobs"]:
        fn = oracles.CHECKS[job["check"]]
        try:
            d = fn(job["input"])
            out.append({"ok": d is None, "detail": d, "error": None})
        except Exception as e:  # noqa: an exception escaping the library is reported, not hidden
            if job["input"].get("if_accepted") and isinstance(e, cvss_error()):
                # the statement is about accepted inputs; this one was rejected in the documented way
                out.append({"ok": True, "detail": "rejected", "error": None})
                continue
            out.append({"ok": False, "detail": None,
                        "error": "%s: %s" % (type(e).__name__, e),
                        "trace": traceback.format_exc()[-1500:]})
        if req.get("stop_at_first") and not out[-1]["ok"]:
            break
    json.dump({"results": out}, sys.stdout)


if __name__ == "__main__":
    main()
