"""
Independent tables for the JSON representation: metric -> JSON field name and
(metric, value) -> JSON enumeration name.  v2/v3 field names and all enumeration names are those
of FIRST's JSON schemas; for v4.0, where the library's field names differ from the schema's
(the schema does not forbid additional properties), the field names are the library's published
ones, pinned here, so that a renamed or swapped field is noticed.
"""

ND = "NOT_DEFINED"

V2_KEYS = {
    "AV": "accessVector", "AC": "accessComplexity", "Au": "authentication",
    "C": "confidentialityImpact", "I": "integrityImpact", "A": "availabilityImpact",
    "E": "exploitability", "RL": "remediationLevel", "RC": "reportConfidence",
    "CDP": "collateralDamagePotential", "TD": "targetDistribution",
    "CR": "confidentialityRequirement", "IR": "integrityRequirement", "AR": "availabilityRequirement",
}
_cia2 = {"N": "NONE", "P": "PARTIAL", "C": "COMPLETE"}
_req2 = {"L": "LOW", "M": "MEDIUM", "H": "HIGH", "ND": ND}
V2_VALUES = {
    "AV": {"L": "LOCAL", "A": "ADJACENT_NETWORK", "N": "NETWORK"},
    "AC": {"H": "HIGH", "M": "MEDIUM", "L": "LOW"},
    "Au": {"M": "MULTIPLE", "S": "SINGLE", "N": "NONE"},
    "C": _cia2, "I": _cia2, "A": _cia2,
    "E": {"U": "UNPROVEN", "POC": "PROOF_OF_CONCEPT", "F": "FUNCTIONAL", "H": "HIGH", "ND": ND},
    "RL": {"OF": "OFFICIAL_FIX", "TF": "TEMPORARY_FIX", "W": "WORKAROUND", "U": "UNAVAILABLE", "ND": ND},
    "RC": {"UC": "UNCONFIRMED", "UR": "UNCORROBORATED", "C": "CONFIRMED", "ND": ND},
    "CDP": {"N": "NONE", "L": "LOW", "LM": "LOW_MEDIUM", "MH": "MEDIUM_HIGH", "H": "HIGH", "ND": ND},
    "TD": {"N": "NONE", "L": "LOW", "M": "MEDIUM", "H": "HIGH", "ND": ND},
    "CR": _req2, "IR": _req2, "AR": _req2,
}

V3_KEYS = {
    "AV": "attackVector", "AC": "attackComplexity", "PR": "privilegesRequired",
    "UI": "userInteraction", "S": "scope", "C": "confidentialityImpact",
    "I": "integrityImpact", "A": "availabilityImpact", "E": "exploitCodeMaturity",
    "RL": "remediationLevel", "RC": "reportConfidence", "CR": "confidentialityRequirement",
    "IR": "integrityRequirement", "AR": "availabilityRequirement",
    "MAV": "modifiedAttackVector", "MAC": "modifiedAttackComplexity",
    "MPR": "modifiedPrivilegesRequired", "MUI": "modifiedUserInteraction", "MS": "modifiedScope",
    "MC": "modifiedConfidentialityImpact", "MI": "modifiedIntegrityImpact",
    "MA": "modifiedAvailabilityImpact",
}
_av3 = {"N": "NETWORK", "A": "ADJACENT_NETWORK", "L": "LOCAL", "P": "PHYSICAL"}
_ac3 = {"L": "LOW", "H": "HIGH"}
_pr3 = {"N": "NONE", "L": "LOW", "H": "HIGH"}
_ui3 = {"N": "NONE", "R": "REQUIRED"}
_s3 = {"U": "UNCHANGED", "C": "CHANGED"}
_cia3 = {"H": "HIGH", "L": "LOW", "N": "NONE"}
_req3 = {"X": ND, "H": "HIGH", "M": "MEDIUM", "L": "LOW"}


def _x(d):
    r = dict(d)
    r["X"] = ND
    return r


V3_VALUES = {
    "AV": _av3, "AC": _ac3, "PR": _pr3, "UI": _ui3, "S": _s3, "C": _cia3, "I": _cia3, "A": _cia3,
    "E": {"X": ND, "H": "HIGH", "F": "FUNCTIONAL", "P": "PROOF_OF_CONCEPT", "U": "UNPROVEN"},
    "RL": {"X": ND, "U": "UNAVAILABLE", "W": "WORKAROUND", "T": "TEMPORARY_FIX", "O": "OFFICIAL_FIX"},
    "RC": {"X": ND, "C": "CONFIRMED", "R": "REASONABLE", "U": "UNKNOWN"},
    "CR": _req3, "IR": _req3, "AR": _req3,
    "MAV": _x(_av3), "MAC": _x(_ac3), "MPR": _x(_pr3), "MUI": _x(_ui3), "MS": _x(_s3),
    "MC": _x(_cia3), "MI": _x(_cia3), "MA": _x(_cia3),
}

SEVERITY_JSON = {"None": "NONE", "Low": "LOW", "Medium": "MEDIUM", "High": "HIGH", "Critical": "CRITICAL"}

# ---- v4.0 -----------------------------------------------------------------------------------
V4_KEYS = {
    "AV": "attackVector", "AC": "attackComplexity", "AT": "attackRequirement",
    "PR": "privilegesRequired", "UI": "userInteraction",
    "VC": "vulnerableSystemImpactConfidentiality", "VI": "vulnerableSystemImpactIntegrity",
    "VA": "vulnerableSystemImpactAvailability", "SC": "subsequentSystemImpactConfidentiality",
    "SI": "subsequentSystemImpactIntegrity", "SA": "subsequentSystemImpactAvailability",
    "S": "safety", "AU": "automatable", "R": "recovery", "V": "valueDensity",
    "RE": "vulnerabilityResponseEffort", "U": "providerUrgency",
    "MAV": "modifiedAttackVector", "MAC": "modifiedAttackComplexity",
    "MAT": "modifiedAttackRequirement", "MPR": "modifiedPrivilegesRequired",
    "MUI": "modifiedUserInteraction",
    "MVC": "modifiedVulnerableSystemImpactConfidentiality",
    "MVI": "modifiedVulnerableSystemImpactIntegrity",
    "MVA": "modifiedVulnerableSystemImpactAvailability",
    "MSC": "modifiedSubsequentSystemImpactConfidentiality",
    "MSI": "modifiedSubsequentSystemImpactIntegrity",
    "MSA": "modifiedSubsequentSystemImpactAvailability",
    "CR": "confidentialityRequirements", "IR": "integrityRequirements",
    "AR": "availabilityRequirements", "E": "exploitMaturity",
}
_av4 = {"N": "NETWORK", "A": "ADJACENT", "L": "LOCAL", "P": "PHYSICAL"}
_at4 = {"N": "NONE", "P": "PRESENT"}
_ui4 = {"N": "NONE", "P": "PASSIVE", "A": "ACTIVE"}
_msub = {"X": ND, "H": "HIGH", "L": "LOW", "N": "NEGLIGIBLE"}
_msubs = {"X": ND, "S": "SAFETY", "H": "HIGH", "L": "LOW", "N": "NEGLIGIBLE"}
V4_VALUES = {
    "AV": _av4, "AC": _ac3, "AT": _at4, "PR": _pr3, "UI": _ui4,
    "VC": _cia3, "VI": _cia3, "VA": _cia3, "SC": _cia3, "SI": _cia3, "SA": _cia3,
    "S": {"X": ND, "N": "NEGLIGIBLE", "P": "PRESENT"},
    "AU": {"X": ND, "N": "NO", "Y": "YES"},
    "R": {"X": ND, "A": "AUTOMATIC", "U": "USER", "I": "IRRECOVERABLE"},
    "V": {"X": ND, "D": "DIFFUSE", "C": "CONCENTRATED"},
    "RE": {"X": ND, "L": "LOW", "M": "MODERATE", "H": "HIGH"},
    "U": {"X": ND, "Clear": "CLEAR", "Green": "GREEN", "Amber": "AMBER", "Red": "RED"},
    "MAV": _x(_av4), "MAC": _x(_ac3), "MAT": _x(_at4), "MPR": _x(_pr3), "MUI": _x(_ui4),
    "MVC": _x(_cia3), "MVI": _x(_cia3), "MVA": _x(_cia3),
    "MSC": _msub, "MSI": _msubs, "MSA": _msubs,
    "CR": _req3, "IR": _req3, "AR": _req3,
    "E": {"X": ND, "A": "ATTACKED", "P": "PROOF_OF_CONCEPT", "U": "UNREPORTED"},
}
