"""
CVSS v3.0 / v3.1 specification (FIRST, "Common Vulnerability Scoring System v3.x:
Specification Document", sections 7.1-7.4), transcribed independently of the code.
"""
from fractions import Fraction as F
from .common import roundup1

MINORS = (0, 1)

BASE = ["AV", "AC", "PR", "UI", "S", "C", "I", "A"]
TEMPORAL = ["E", "RL", "RC"]
ENVIRONMENTAL = ["CR", "IR", "AR", "MAV", "MAC", "MPR", "MUI", "MS", "MC", "MI", "MA"]
ORDER = BASE + TEMPORAL + ENVIRONMENTAL          # specification order of the vector string
MODIFIED = ["MAV", "MAC", "MPR", "MUI", "MS", "MC", "MI", "MA"]

VALUES = {
    "AV": ["N", "A", "L", "P"], "AC": ["L", "H"], "PR": ["N", "L", "H"], "UI": ["N", "R"],
    "S": ["U", "C"], "C": ["H", "L", "N"], "I": ["H", "L", "N"], "A": ["H", "L", "N"],
    "E": ["X", "H", "F", "P", "U"], "RL": ["X", "U", "W", "T", "O"], "RC": ["X", "C", "R", "U"],
    "CR": ["X", "H", "M", "L"], "IR": ["X", "H", "M", "L"], "AR": ["X", "H", "M", "L"],
    "MAV": ["X", "N", "A", "L", "P"], "MAC": ["X", "L", "H"], "MPR": ["X", "N", "L", "H"],
    "MUI": ["X", "N", "R"], "MS": ["X", "U", "C"], "MC": ["X", "H", "L", "N"],
    "MI": ["X", "H", "L", "N"], "MA": ["X", "H", "L", "N"],
}

W = {
    "AV": {"N": F("0.85"), "A": F("0.62"), "L": F("0.55"), "P": F("0.2")},
    "AC": {"L": F("0.77"), "H": F("0.44")},
    "PR_U": {"N": F("0.85"), "L": F("0.62"), "H": F("0.27")},
    "PR_C": {"N": F("0.85"), "L": F("0.68"), "H": F("0.5")},
    "UI": {"N": F("0.85"), "R": F("0.62")},
    "CIA": {"H": F("0.56"), "L": F("0.22"), "N": F(0)},
    "E": {"X": F(1), "H": F(1), "F": F("0.97"), "P": F("0.94"), "U": F("0.91")},
    "RL": {"X": F(1), "U": F(1), "W": F("0.97"), "T": F("0.96"), "O": F("0.95")},
    "RC": {"X": F(1), "C": F(1), "R": F("0.96"), "U": F("0.92")},
    "REQ": {"X": F(1), "H": F("1.5"), "M": F(1), "L": F("0.5")},
}


def eff_modified(mod, base):
    """a modified metric that is absent ('X' stands for both) takes its base metric's value"""
    return base if mod == "X" else mod


def w_pr(pr, scope):
    return (W["PR_C"] if scope == "C" else W["PR_U"])[pr]


def iss(c, i, a):
    return 1 - (1 - W["CIA"][c]) * (1 - W["CIA"][i]) * (1 - W["CIA"][a])


def impact(scope, iss_v):
    if scope == "U":
        return F("6.42") * iss_v
    return F("7.52") * (iss_v - F("0.029")) - F("3.25") * (iss_v - F("0.02")) ** 15


def exploitability(av, ac, pr, ui, scope):
    return F("8.22") * W["AV"][av] * W["AC"][ac] * w_pr(pr, scope) * W["UI"][ui]


def base_score(scope, impact_v, expl_v):
    if impact_v <= 0:
        return F(0)
    if scope == "U":
        return roundup1(min(impact_v + expl_v, F(10)))
    return roundup1(min(F("1.08") * (impact_v + expl_v), F(10)))


def temporal_factor(e, rl, rc):
    return W["E"][e] * W["RL"][rl] * W["RC"][rc]


def temporal_score(base_v, tf):
    return roundup1(base_v * tf)


def miss(mc, mi, ma, cr, ir, ar):
    return min(
        1
        - (1 - W["CIA"][mc] * W["REQ"][cr])
        * (1 - W["CIA"][mi] * W["REQ"][ir])
        * (1 - W["CIA"][ma] * W["REQ"][ar]),
        F("0.915"),
    )


def modified_impact(minor, mscope, miss_v):
    if mscope == "U":
        return F("6.42") * miss_v
    if minor == 0:
        return F("7.52") * (miss_v - F("0.029")) - F("3.25") * (miss_v - F("0.02")) ** 15
    return F("7.52") * (miss_v - F("0.029")) - F("3.25") * (miss_v * F("0.9731") - F("0.02")) ** 13


def modified_base(mscope, mimpact_v, mexpl_v):
    """the inner Roundup of the environmental equation (None when the impact is <= 0)"""
    if mimpact_v <= 0:
        return None
    if mscope == "U":
        return roundup1(min(mimpact_v + mexpl_v, F(10)))
    return roundup1(min(F("1.08") * (mimpact_v + mexpl_v), F(10)))


def environmental_score(modified_base_v, tf):
    if modified_base_v is None:
        return F(0)
    return roundup1(modified_base_v * tf)


# ---- whole-vector oracle over an effective assignment (dict metric -> value, X = not defined)
def fill(o):
    """effective assignment of an original metric map (absent optional -> X, modified -> base)"""
    e = {}
    for m in BASE:
        e[m] = o[m]
    for m in TEMPORAL + ["CR", "IR", "AR"]:
        e[m] = o.get(m, "X")
    for m in MODIFIED:
        e[m] = eff_modified(o.get(m, "X"), o[m[1:]])
    return e


def scores(minor, o):
    e = fill(o)
    s, ms = e["S"], e["MS"]
    b = base_score(s, impact(s, iss(e["C"], e["I"], e["A"])),
                   exploitability(e["AV"], e["AC"], e["PR"], e["UI"], s))
    tf = temporal_factor(e["E"], e["RL"], e["RC"])
    t = temporal_score(b, tf)
    mi = modified_impact(minor, ms, miss(e["MC"], e["MI"], e["MA"], e["CR"], e["IR"], e["AR"]))
    me = exploitability(e["MAV"], e["MAC"], e["MPR"], e["MUI"], ms)
    env = environmental_score(modified_base(ms, mi, me), tf)
    return b, t, env


def severity(score):
    """official qualitative severity rating scale (v3.x section 5, v4.0 section 6)"""
    if score == 0:
        return "None"
    if score <= F("3.9"):
        return "Low"
    if score <= F("6.9"):
        return "Medium"
    if score <= F("8.9"):
        return "High"
    return "Critical"
