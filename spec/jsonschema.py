"""
A small JSON-Schema validator (draft-04 / draft-07 keywords used by FIRST's CVSS schemas):
type, enum, const, pattern, required, minimum, maximum, multipleOf, anyOf, allOf, $ref,
properties.  Numbers are judged on the decimal literal a float prints as, so `multipleOf: 0.1`
is exact (assumption A6).  `validate` works on concrete documents; `fragments` decomposes a
schema into independent obligations over sets of properties so that they can be lifted over
finite-choice values.
"""
import json
import os
import re
from fractions import Fraction

PINNED = os.path.join(os.path.dirname(os.path.abspath(__file__)), "pinned")


def load(version):
    with open(os.path.join(PINNED, "cvss-v%s.json" % version)) as f:
        return json.load(f)


def _num(x):
    if isinstance(x, bool):
        return None
    if isinstance(x, int):
        return Fraction(x)
    if isinstance(x, float):
        if x != x or x in (float("inf"), float("-inf")):
            return None
        return Fraction(repr(x))
    return None


def resolve(root, schema):
    while "$ref" in schema:
        ref = schema["$ref"]
        assert ref.startswith("#/")
        node = root
        for part in ref[2:].split("/"):
            node = node[part]
        schema = node
    return schema


ABSENT = object()


def valid(root, schema, inst):
    """does the concrete instance satisfy the schema? (ABSENT instances satisfy everything)"""
    if inst is ABSENT:
        return True
    schema = resolve(root, schema)
    t = schema.get("type")
    if t is not None:
        ok = {
            "object": isinstance(inst, dict),
            "string": isinstance(inst, str),
            "number": _num(inst) is not None,
            "integer": isinstance(inst, int) and not isinstance(inst, bool),
            "boolean": isinstance(inst, bool),
            "array": isinstance(inst, list),
            "null": inst is None,
        }[t]
        if not ok:
            return False
    if "enum" in schema and inst not in schema["enum"]:
        return False
    if "const" in schema and inst != schema["const"]:
        return False
    if "pattern" in schema and isinstance(inst, str) and re.search(schema["pattern"], inst) is None:
        return False
    n = _num(inst)
    if n is not None:
        if "minimum" in schema and n < Fraction(repr(schema["minimum"])):
            return False
        if "maximum" in schema and n > Fraction(repr(schema["maximum"])):
            return False
        if "multipleOf" in schema:
            q = n / Fraction(repr(schema["multipleOf"]))
            if q.denominator != 1:
                return False
    if isinstance(inst, dict):
        for k in schema.get("required", []):
            if k not in inst:
                return False
        for k, sub in schema.get("properties", {}).items():
            if k in inst and not valid(root, sub, inst[k]):
                return False
    for sub in schema.get("allOf", []):
        if not valid(root, sub, inst):
            return False
    if "anyOf" in schema and not any(valid(root, sub, inst) for sub in schema["anyOf"]):
        return False
    return True


def _props_used(root, schema, acc):
    schema = resolve(root, schema)
    for k in schema.get("properties", {}):
        acc.add(k)
    for key in ("allOf", "anyOf"):
        for sub in schema.get(key, []):
            _props_used(root, sub, acc)
    return acc


def fragments(root):
    """
    Independent obligations of an object schema: a list of (name, property names, schema
    fragment) such that the document is valid iff it is an object, has the required keys and
    every fragment is satisfied by the sub-document made of its property names.
    """
    out = []
    for k, sub in root.get("properties", {}).items():
        out.append(("properties/%s" % k, (k,), {"properties": {k: sub}}))
    for i, sub in enumerate(root.get("allOf", [])):
        names = tuple(sorted(_props_used(root, sub, set())))
        out.append(("allOf/%d" % i, names, sub))
    if "anyOf" in root:
        names = tuple(sorted(_props_used(root, {"anyOf": root["anyOf"]}, set())))
        out.append(("anyOf", names, {"anyOf": root["anyOf"]}))
    return out
