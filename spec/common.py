"""
Shared helpers of the specification layer.  Spec functions are ordinary Python over exact
`Fraction`s and strings: they are the executable oracle used for native replay, and the very
same functions are lifted leaf-wise over finite choices (pyvc.sym.fv_apply) when they appear
in a contract -- one source, two interpreters.
"""
from fractions import Fraction as F
import math


def Fr(s):
    return F(s)


def roundup1(x):
    """smallest number with one decimal place that is >= x (exact)"""
    return F(math.ceil(x * 10), 10)


def halfup1(x):
    """round half away from zero to one decimal place (exact)"""
    q = x * 10
    if q >= 0:
        return F(math.floor(q + F(1, 2)), 10)
    return -F(math.floor(-q + F(1, 2)), 10)


def tenths(x):
    """integer number of tenths of a one-decimal rational"""
    t = x * 10
    assert t.denominator == 1, x
    return int(t)
