"""
CVSS v4.0 specification (FIRST, "CVSS v4.0 Specification Document", sections 2-8 and the
reference scoring algorithm), in exact rational arithmetic.  The macrovector lookup table, the
highest-severity vectors and the depths are FIRST data pinned under spec/pinned (A7).
"""
import json
import os
from fractions import Fraction as F

from .common import halfup1

_T = json.load(open(os.path.join(os.path.dirname(os.path.abspath(__file__)), "pinned", "v4_tables.json")))
LOOKUP = {k: F(str(v)) for k, v in _T["lookup"].items()}
MAX_COMPOSED = _T["max_composed"]
MAX_SEVERITY = _T["max_severity"]

BASE = ["AV", "AC", "AT", "PR", "UI", "VC", "VI", "VA", "SC", "SI", "SA"]
THREAT = ["E"]
ENVIRONMENTAL = ["CR", "IR", "AR", "MAV", "MAC", "MAT", "MPR", "MUI", "MVC", "MVI", "MVA", "MSC", "MSI", "MSA"]
SUPPLEMENTAL = ["S", "AU", "R", "V", "RE", "U"]
ORDER = BASE + THREAT + ENVIRONMENTAL + SUPPLEMENTAL     # mandatory order of the vector string
MODIFIED = ["MAV", "MAC", "MAT", "MPR", "MUI", "MVC", "MVI", "MVA", "MSC", "MSI", "MSA"]
SCORING = ["AV", "AC", "AT", "PR", "UI", "VC", "VI", "VA", "SC", "SI", "SA", "CR", "IR", "AR", "E"]

VALUES = {
    "AV": ["N", "A", "L", "P"], "AC": ["L", "H"], "AT": ["N", "P"], "PR": ["N", "L", "H"],
    "UI": ["N", "P", "A"], "VC": ["H", "L", "N"], "VI": ["H", "L", "N"], "VA": ["H", "L", "N"],
    "SC": ["H", "L", "N"], "SI": ["H", "L", "N"], "SA": ["H", "L", "N"],
    "E": ["X", "A", "P", "U"],
    "CR": ["X", "H", "M", "L"], "IR": ["X", "H", "M", "L"], "AR": ["X", "H", "M", "L"],
    "MAV": ["X", "N", "A", "L", "P"], "MAC": ["X", "L", "H"], "MAT": ["X", "N", "P"],
    "MPR": ["X", "N", "L", "H"], "MUI": ["X", "N", "P", "A"],
    "MVC": ["X", "H", "L", "N"], "MVI": ["X", "H", "L", "N"], "MVA": ["X", "H", "L", "N"],
    "MSC": ["X", "H", "L", "N"], "MSI": ["X", "S", "H", "L", "N"], "MSA": ["X", "S", "H", "L", "N"],
    "S": ["X", "N", "P"], "AU": ["X", "N", "Y"], "R": ["X", "A", "U", "I"], "V": ["X", "D", "C"],
    "RE": ["X", "L", "M", "H"], "U": ["X", "Clear", "Green", "Amber", "Red"],
}

LEVELS = {
    "AV": {"N": F(0), "A": F("0.1"), "L": F("0.2"), "P": F("0.3")},
    "PR": {"N": F(0), "L": F("0.1"), "H": F("0.2")},
    "UI": {"N": F(0), "P": F("0.1"), "A": F("0.2")},
    "AC": {"L": F(0), "H": F("0.1")},
    "AT": {"N": F(0), "P": F("0.1")},
    "VC": {"H": F(0), "L": F("0.1"), "N": F("0.2")},
    "VI": {"H": F(0), "L": F("0.1"), "N": F("0.2")},
    "VA": {"H": F(0), "L": F("0.1"), "N": F("0.2")},
    "SC": {"H": F("0.1"), "L": F("0.2"), "N": F("0.3")},
    "SI": {"S": F(0), "H": F("0.1"), "L": F("0.2"), "N": F("0.3")},
    "SA": {"S": F(0), "H": F("0.1"), "L": F("0.2"), "N": F("0.3")},
    "CR": {"H": F(0), "M": F("0.1"), "L": F("0.2")},
    "IR": {"H": F(0), "M": F("0.1"), "L": F("0.2")},
    "AR": {"H": F(0), "M": F("0.1"), "L": F("0.2")},
}

EQ_METRICS = {
    "eq1": ["AV", "PR", "UI"], "eq2": ["AC", "AT"],
    "eq3": ["VC", "VI", "VA", "CR", "IR", "AR"], "eq4": ["SC", "SI", "SA"], "eq5": ["E"],
}


def effective(metric, base, modified):
    """effective value of a scoring metric: a defined Modified metric overrides the base metric;
    undefined E counts as Attacked, undefined CR/IR/AR as High"""
    if metric == "E":
        return "A" if base == "X" else base
    if metric in ("CR", "IR", "AR"):
        return "H" if base == "X" else base
    return base if modified == "X" else modified


def eff_all(o):
    e = {}
    for m in SCORING:
        if m in ("E", "CR", "IR", "AR"):
            e[m] = effective(m, o.get(m, "X"), None)
        else:
            e[m] = effective(m, o[m], o.get("M" + m, "X"))
    return e


def eq1(av, pr, ui):
    if av == "N" and pr == "N" and ui == "N":
        return 0
    if (av == "N" or pr == "N" or ui == "N") and av != "P":
        return 1
    return 2


def eq2(ac, at):
    return 0 if (ac == "L" and at == "N") else 1


def eq3(vc, vi, va):
    if vc == "H" and vi == "H":
        return 0
    if vc == "H" or vi == "H" or va == "H":
        return 1
    return 2


def eq4(sc, si, sa):
    if si == "S" or sa == "S":
        return 0
    if sc == "H" or si == "H" or sa == "H":
        return 1
    return 2


def eq5(e):
    return {"A": 0, "P": 1, "U": 2}[e]


def eq6(vc, vi, va, cr, ir, ar):
    if (cr == "H" and vc == "H") or (ir == "H" and vi == "H") or (ar == "H" and va == "H"):
        return 0
    return 1


def macrovector(e):
    return "%d%d%d%d%d%d" % (
        eq1(e["AV"], e["PR"], e["UI"]), eq2(e["AC"], e["AT"]), eq3(e["VC"], e["VI"], e["VA"]),
        eq4(e["SC"], e["SI"], e["SA"]), eq5(e["E"]),
        eq6(e["VC"], e["VI"], e["VA"], e["CR"], e["IR"], e["AR"]),
    )


def no_impact(e):
    return all(e[m] == "N" for m in ("VC", "VI", "VA", "SC", "SI", "SA"))


def lower_scores(mv, lookup=None):
    """score of the next-lower macrovector per class (None when it does not exist)"""
    lk = LOOKUP if lookup is None else lookup
    d = [int(c) for c in mv]

    def get(dd):
        return lk.get("".join(str(x) for x in dd))

    def bump(*idx):
        dd = list(d)
        for i in idx:
            dd[i] += 1
        return dd

    out = {"eq1": get(bump(0)), "eq2": get(bump(1)), "eq4": get(bump(3)), "eq5": get(bump(4))}
    e3, e6 = d[2], d[5]
    if e3 == 1 and e6 == 1:
        out["eq3"] = get(bump(2))
    elif e3 == 0 and e6 == 1:
        out["eq3"] = get(bump(2))
    elif e3 == 1 and e6 == 0:
        out["eq3"] = get(bump(5))
    elif e3 == 0 and e6 == 0:
        cands = [x for x in (get(bump(5)), get(bump(2))) if x is not None]
        out["eq3"] = max(cands) if cands else None
    else:
        out["eq3"] = get(bump(2, 5))
    return out


def parse_max(part):
    return dict(f.split(":") for f in part.strip("/").split("/"))


def max_parts(mv, tables=None):
    mc = MAX_COMPOSED if tables is None else tables
    return {
        "eq1": mc["eq1"][mv[0]], "eq2": mc["eq2"][mv[1]], "eq3": mc["eq3"][mv[2]][mv[5]],
        "eq4": mc["eq4"][mv[3]], "eq5": mc["eq5"][mv[4]],
    }


def depth(mv, cls):
    ms = MAX_SEVERITY
    if cls == "eq3":
        return ms["eq3eq6"][mv[2]][mv[5]]
    return ms[cls][mv[{"eq1": 0, "eq2": 1, "eq4": 3, "eq5": 4}[cls]]]


def class_distance(e, mv, cls):
    """severity distance of the vector from the first highest-severity vector of its class that
    it does not exceed in any metric"""
    if cls == "eq5":
        return F(0)
    for part in max_parts(mv)[cls]:
        mx = parse_max(part)
        ds = [LEVELS[m][e[m]] - LEVELS[m][mx[m]] for m in EQ_METRICS[cls]]
        if all(x >= 0 for x in ds):
            return sum(ds, F(0))
    return None


def score_eff(e):
    if no_impact(e):
        return F(0)
    mv = macrovector(e)
    value = LOOKUP[mv]
    lows = lower_scores(mv)
    total = F(0)
    n = 0
    for cls in ("eq1", "eq2", "eq3", "eq4", "eq5"):
        low = lows[cls]
        if low is None:
            continue
        n += 1
        if cls == "eq5":
            continue
        available = value - low
        dist = class_distance(e, mv, cls)
        total += available * (dist / (depth(mv, cls) * F("0.1")))
    mean = total / n if n else F(0)
    v = value - mean
    v = max(F(0), min(F(10), v))
    return halfup1(v)


def score(o):
    return score_eff(eff_all(o))
