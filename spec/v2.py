"""
CVSS v2 specification ("A Complete Guide to the Common Vulnerability Scoring System Version
2.0", section 3.2), transcribed independently of the code.
"""
from fractions import Fraction as F
from .common import halfup1

BASE = ["AV", "AC", "Au", "C", "I", "A"]
TEMPORAL = ["E", "RL", "RC"]
ENVIRONMENTAL = ["CDP", "TD", "CR", "IR", "AR"]
ORDER = BASE + TEMPORAL + ENVIRONMENTAL

VALUES = {
    "AV": ["L", "A", "N"], "AC": ["H", "M", "L"], "Au": ["M", "S", "N"],
    "C": ["N", "P", "C"], "I": ["N", "P", "C"], "A": ["N", "P", "C"],
    "E": ["U", "POC", "F", "H", "ND"], "RL": ["OF", "TF", "W", "U", "ND"],
    "RC": ["UC", "UR", "C", "ND"], "CDP": ["N", "L", "LM", "MH", "H", "ND"],
    "TD": ["N", "L", "M", "H", "ND"], "CR": ["L", "M", "H", "ND"],
    "IR": ["L", "M", "H", "ND"], "AR": ["L", "M", "H", "ND"],
}

W = {
    "AV": {"L": F("0.395"), "A": F("0.646"), "N": F("1.0")},
    "AC": {"H": F("0.35"), "M": F("0.61"), "L": F("0.71")},
    "Au": {"M": F("0.45"), "S": F("0.56"), "N": F("0.704")},
    "CIA": {"N": F(0), "P": F("0.275"), "C": F("0.660")},
    "E": {"U": F("0.85"), "POC": F("0.9"), "F": F("0.95"), "H": F(1), "ND": F(1)},
    "RL": {"OF": F("0.87"), "TF": F("0.90"), "W": F("0.95"), "U": F(1), "ND": F(1)},
    "RC": {"UC": F("0.90"), "UR": F("0.95"), "C": F(1), "ND": F(1)},
    "CDP": {"N": F(0), "L": F("0.1"), "LM": F("0.3"), "MH": F("0.4"), "H": F("0.5"), "ND": F(0)},
    "TD": {"N": F(0), "L": F("0.25"), "M": F("0.75"), "H": F(1), "ND": F(1)},
    "REQ": {"L": F("0.5"), "M": F(1), "H": F("1.51"), "ND": F(1)},
}


def impact(c, i, a):
    return F("10.41") * (1 - (1 - W["CIA"][c]) * (1 - W["CIA"][i]) * (1 - W["CIA"][a]))


def adjusted_impact(c, i, a, cr, ir, ar):
    return min(
        F(10),
        F("10.41")
        * (
            1
            - (1 - W["CIA"][c] * W["REQ"][cr])
            * (1 - W["CIA"][i] * W["REQ"][ir])
            * (1 - W["CIA"][a] * W["REQ"][ar])
        ),
    )


def exploitability(av, ac, au):
    return F(20) * W["AV"][av] * W["AC"][ac] * W["Au"][au]


def base_equation(impact_v, expl_v):
    f = F(0) if impact_v == 0 else F("1.176")
    return halfup1((F("0.6") * impact_v + F("0.4") * expl_v - F("1.5")) * f)


def nonneg(x):
    return max(F(0), x)


def temporal_factor(e, rl, rc):
    return W["E"][e] * W["RL"][rl] * W["RC"][rc]


def temporal_equation(base_v, tf):
    return halfup1(base_v * tf)


def environmental_equation(adj_temporal, cdp, td):
    return halfup1((adj_temporal + (10 - adj_temporal) * W["CDP"][cdp]) * W["TD"][td])


def group_defined(values):
    """a temporal / environmental score exists iff some metric of the group is not ND"""
    return any(v != "ND" for v in values)


def scores(o):
    """o: original metric map (absent = ND).  Returns (base, temporal|None, environmental|None)"""
    e = {m: o.get(m, "ND") for m in ORDER}
    ex = exploitability(e["AV"], e["AC"], e["Au"])
    b = nonneg(base_equation(impact(e["C"], e["I"], e["A"]), ex))
    tf = temporal_factor(e["E"], e["RL"], e["RC"])
    t = nonneg(temporal_equation(b, tf)) if group_defined([e[m] for m in TEMPORAL]) else None
    if group_defined([e[m] for m in ENVIRONMENTAL]):
        ab = base_equation(adjusted_impact(e["C"], e["I"], e["A"], e["CR"], e["IR"], e["AR"]), ex)
        at = temporal_equation(ab, tf)
        env = nonneg(environmental_equation(at, e["CDP"], e["TD"]))
    else:
        env = None
    return b, t, env


def severity(score):
    """NVD qualitative ratings for v2; 'None' for an undefined score"""
    if score is None:
        return "None"
    if score <= F("3.9"):
        return "Low"
    if score <= F("6.9"):
        return "Medium"
    return "High"
