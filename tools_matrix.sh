#!/bin/bash
# usage: tools_matrix.sh <mutdir> [ids...] : for each mutant <id>/<A|B> run the check of its own property
mutdir=$1; shift
for id in "$@"; do
  for m in A B C; do
    d=$mutdir/$id/$m
    [ -f $d/patch.diff ] || continue
    cd /repo && git apply $d/patch.diff 2>/dev/null || { echo "$id/$m APPLY-FAILED"; continue; }
    cd /verif
    out=$(timeout 1200 python3-vt -m pyvc check $id 2>&1); rc=$?
    v=$(echo "$out" | grep -c "^VIOLATION")
    nf=$(echo "$out" | grep -c "no-failing-input-found")
    first=$(echo "$out" | grep "^VIOLATION" | head -1 | sed 's/.*obligation=//' | cut -c1-90)
    echo "$id/$m rc=$rc violations=$v nofail=$nf first=[$first] $(echo "$out" | tail -1 | cut -c1-120)"
    cd /repo && git checkout -- . 
  done
done
