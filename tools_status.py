#!/usr/bin/env python3
"""markdown status table from /verif/evidence/*.json (printed to stdout)"""
import json, glob
print("| id | units | functions under contract | paths | obligations | discharged | back ends | solver s | known findings | trusted |")
print("|---|---|---|---|---|---|---|---|---|---|")
for f in sorted(glob.glob("/verif/evidence/C*.json")):
    d = json.load(open(f)); c = d["coverage"]
    be = ", ".join("%s %d" % (k, v) for k, v in sorted(c["backends"].items(), key=lambda kv: -kv[1]))
    tb = ", ".join(t.split(" ")[0] for t in c["trusted_base"])
    print("| %s | %d | %d | %d | %d | %d | %s | %.0f | %d | %s |" % (d["property_id"], c["units"], len(c["functions_under_contract"]), c["paths"],
          c["obligations"], c["discharged"], be, c["solver_seconds"], len(c["known_findings"]), tb))
