#!/bin/bash
cd /verif
for p in "$@"; do
  s=$(date +%s)
  out=$(timeout 5400 python3-vt -m pyvc check $p --tier thorough 2>&1); rc=$?
  echo "$p rc=$rc $(( $(date +%s) - s ))s :: $(echo "$out" | grep -E "^(VIOLATION|UNDECIDED|ERROR)" | head -3 | cut -c1-160 | tr '\n' '|') $(echo "$out" | grep " thorough: " | cut -c1-140)"
  python3-vt -c "
import json;d=json.load(open('/verif/evidence/$p.json'));c=d['coverage'];print('   second:',c['second_solver_cvc5_on_z3_unsat_verdicts'],'bounded:',(c['bounded_stand_in'] or {}).get('inputs_run'),(c['bounded_stand_in'] or {}).get('failed'))"
done
