"""
property id -> obligation cone (contracts on real functions + lemmas), counter-model
concretisation, native replay oracle and bounded stand-in.
"""
from __future__ import annotations

import itertools
import random

from pyvc.driver import Property
from spec import v2 as S2, v3 as S3

UNIT_LIMIT = 600


def contract_jobs(modname, keys, limit=UNIT_LIMIT):
    import importlib

    importlib.import_module(modname)
    from pyvc.contract import REGISTRY

    jobs = []
    for key in keys:
        c = REGISTRY[key]
        for case in c.cases:
            jobs.append(("contract", modname, list(key), dict(case), limit))
    return jobs


# --------------------------------------------------------------------------------------------
# counter-model -> vector strings


def _mval(model, name):
    v = model.get(name)
    if isinstance(v, dict):
        return v.get("str") if v.get("str") is not None else v.get("int")
    if isinstance(v, str) and v.startswith("If("):
        return None  # variable the counter-example does not constrain
    return v


def v3_vector_from_model(model, prefix="o"):
    if not model:
        return None
    minor = _mval(model, prefix + ".minor")
    if minor not in (0, 1):
        minor = 1
    fields = []
    for m in S3.ORDER:
        present = True if m in S3.BASE else bool(_mval(model, "%s.p_%s" % (prefix, m)))
        v = _mval(model, "%s.v_%s" % (prefix, m))
        if present and v in S3.VALUES[m]:
            fields.append("%s:%s" % (m, v))
        elif m in S3.BASE:
            return None
    return "CVSS:3.%d/%s" % (minor, "/".join(fields))


def v3_neighbourhood(vector, rng, n=400):
    """vectors sharing the optional part of `vector` with every base assignment (sampled) and
    both minor versions; plus the vector with each optional metric dropped"""
    parts = vector.split("/")
    opt = [p for p in parts[1:] if p.split(":")[0] not in S3.BASE]
    out = []
    combos = list(itertools.product(*[S3.VALUES[m] for m in S3.BASE]))
    rng.shuffle(combos)
    for combo in combos[:n]:
        base = ["%s:%s" % (m, v) for m, v in zip(S3.BASE, combo)]
        for minor in (0, 1):
            out.append("CVSS:3.%d/%s" % (minor, "/".join(base + opt)))
    return out


def v3_all_base(minors=(0, 1)):
    for minor in minors:
        for combo in itertools.product(*[S3.VALUES[m] for m in S3.BASE]):
            yield "CVSS:3.%d/%s" % (minor, "/".join("%s:%s" % (m, v) for m, v in zip(S3.BASE, combo)))


def v3_random(rng, n):
    out = []
    for _ in range(n):
        minor = rng.choice((0, 1))
        fs = ["%s:%s" % (m, rng.choice(S3.VALUES[m])) for m in S3.BASE]
        for m in S3.TEMPORAL + S3.ENVIRONMENTAL:
            if rng.random() < 0.55:
                fs.append("%s:%s" % (m, rng.choice(S3.VALUES[m])))
        out.append("CVSS:3.%d/%s" % (minor, "/".join(fs)))
    return out


V3_SCORING = [
    ("cvss3", "CVSS3.get_value"),
    ("cvss3", "CVSS3.handle_scope"),
    ("cvss3", "CVSS3.add_missing_optional"),
    ("cvss3", "CVSS3.compute_isc_base"),
    ("cvss3", "CVSS3.compute_isc"),
    ("cvss3", "CVSS3.compute_esc"),
    ("cvss3", "CVSS3.compute_base_score"),
    ("cvss3", "CVSS3.compute_temporal_score"),
    ("cvss3", "CVSS3.compute_modified_isc_base"),
    ("cvss3", "CVSS3.compute_modified_isc_30"),
    ("cvss3", "CVSS3.compute_modified_isc"),
    ("cvss3", "CVSS3.compute_modified_esc"),
    ("cvss3", "CVSS3.compute_environmental_score"),
    ("cvss3", "CVSS3.scores"),
]


class C01(Property):
    id = "C01"
    trusted = ("A0", "A2", "A7", "FD")
    technique = "contracts on cvss3.py scoring functions; VCs from the AST, finite-domain evaluation + z3; certified decimal enclosures"

    def jobs(self, tier):
        return contract_jobs("contracts.cvss3", V3_SCORING)

    def concretize(self, o):
        v = v3_vector_from_model(o.get("model") or {})
        return [{"check": "C01", "input": {"vector": v}}] if v else []

    def widen(self, o, tier):
        rng = random.Random(1)
        v = v3_vector_from_model(o.get("model") or {})
        vs = v3_neighbourhood(v, rng) if v else []
        vs += v3_random(rng, 3000)
        return [{"check": "C01", "input": {"vector": x}} for x in vs]

    def bounded(self, tier, seed):
        rng = random.Random(seed)
        vs = list(v3_all_base()) + v3_random(rng, 20000 if tier == "quick" else 200000)
        return [{"check": "C01", "input": {"vector": x}} for x in vs], "all 2x2592 base vectors + %d random v3 vectors" % (len(vs) - 5184)



def v2_vector_from_model(model, prefix="o"):
    if not model:
        return None
    fields = []
    for m in S2.ORDER:
        present = True if m in S2.BASE else bool(_mval(model, "%s.p_%s" % (prefix, m)))
        v = _mval(model, "%s.v_%s" % (prefix, m))
        if present and v in S2.VALUES[m]:
            fields.append("%s:%s" % (m, v))
        elif m in S2.BASE:
            return None
    return "/".join(fields)


def v2_random(rng, n):
    out = []
    for _ in range(n):
        fs = ["%s:%s" % (m, rng.choice(S2.VALUES[m])) for m in S2.BASE]
        for m in S2.TEMPORAL + S2.ENVIRONMENTAL:
            if rng.random() < 0.55:
                fs.append("%s:%s" % (m, rng.choice(S2.VALUES[m])))
        out.append("/".join(fs))
    return out


def v2_all_base():
    for combo in itertools.product(*[S2.VALUES[m] for m in S2.BASE]):
        yield "/".join("%s:%s" % (m, v) for m, v in zip(S2.BASE, combo))


def v2_neighbourhood(vector, rng, n=729):
    parts = vector.split("/")
    opt = [p for p in parts if p.split(":")[0] not in S2.BASE]
    out = []
    for combo in itertools.product(*[S2.VALUES[m] for m in S2.BASE]):
        out.append("/".join(["%s:%s" % (m, v) for m, v in zip(S2.BASE, combo)] + opt))
    rng.shuffle(out)
    return out[:n]


V2_SCORING = [("cvss2", "CVSS2." + n) for n in (
    "get_value", "impact_equation", "adjusted_impact_equation", "base_score_equation",
    "temporal_score_equation", "compute_base_score", "compute_temporal_score",
    "compute_environmental_score", "scores")]

V3_ACCESSORS = [("cvss3", "CVSS3." + n) for n in (
    "scores", "severities", "clean_vector", "rh_vector", "temporal_vector", "environmental_vector",
    "get_value_description", "as_json", "__hash__", "__eq__")]
V2_ACCESSORS = [("cvss2", "CVSS2." + n) for n in (
    "scores", "severities", "clean_vector", "rh_vector", "temporal_vector", "environmental_vector",
    "get_value_description", "as_json", "__hash__", "__eq__")]


class VectorProperty(Property):
    """properties whose counter-models are metric assignments of one v2/v3 object"""

    native = None  # name of the native check
    contracts = ()  # [(modname, [keys])]
    exclude = ("*/schema:*",)  # schema validity of JSON documents is C10's business

    wf = False  # include the functions that establish the representation invariant

    def jobs(self, tier):
        out = []
        seen = set()
        for modname, keys in list(self.contracts) + (WF_CONE if self.wf else []):
            for j in contract_jobs(modname, keys):
                k = (j[1], tuple(j[2]), tuple(sorted(j[3].items())))
                if k not in seen:
                    seen.add(k)
                    out.append(j)
        return out

    def vectors_of(self, o):
        unit = o.get("unit", "")
        model = o.get("model") or {}
        vs = []
        if unit.startswith("cvss3") or "3" in unit.split(".")[0]:
            v = v3_vector_from_model(model)
            if v:
                vs.append(("3", v))
        if unit.startswith("cvss2"):
            v = v2_vector_from_model(model)
            if v:
                vs.append(("2", v))
        if unit.startswith("cvss4"):
            v = v4_vector_from_model(model)
            if v:
                vs.append(("4", v))
        return vs

    def job(self, ver, vector, o=None):
        return {"check": self.native, "input": {"version": ver, "vector": vector}}

    def concretize(self, o):
        return [self.job(ver, v, o) for ver, v in self.vectors_of(o)]

    def widen(self, o, tier):
        rng = random.Random(1)
        out = []
        if self.wf and any(t in o.get("unit", "") for t in ("parse_vector", "check_mandatory", "__init__", "from_rh_vector")):
            # a refuted obligation of the parser / constructor: the statement is tried on whatever
            # the library accepts among valid vectors and their one-edit neighbourhood
            for ver, t in edit_neighbourhood(rng, 12, 150):
                j = self.job(ver, t, o)
                j["input"]["if_accepted"] = True
                out.append(j)
        for ver, v in self.vectors_of(o):
            nb = {"3": v3_neighbourhood, "2": v2_neighbourhood, "4": v4_neighbourhood}[ver]
            out += [self.job(ver, x, o) for x in nb(v, rng)]
        unit = o.get("unit", "")
        if unit.startswith("cvss3"):
            out += [self.job("3", x, o) for x in v3_random(rng, 3000)]
        if unit.startswith("cvss2"):
            out += [self.job("2", x, o) for x in v2_random(rng, 3000)]
            # every base combination under a dozen random choices of the optional metrics
            for _ in range(12):
                opt = ["%s:%s" % (m, rng.choice(S2.VALUES[m])) for m in S2.TEMPORAL + S2.ENVIRONMENTAL if rng.random() < 0.4]
                out += [self.job("2", "/".join([b] + opt), o) for b in v2_all_base()]
        if unit.startswith("cvss4"):
            out += [self.job("4", x, o) for x in v4_random(rng, 3000)]
        return out

    def accepted_neighbourhood(self, tier):
        """the property's statement on whatever the library accepts among valid vectors and their
        edit neighbourhood (used when the parser / constructor part of the cone is undecided)"""
        rng = random.Random(1)
        out = []
        for ver, t in edit_neighbourhood(rng, 12 if tier == "quick" else 60, 150 if tier == "quick" else 300):
            j = self.job(ver, t)
            j["input"]["if_accepted"] = True
            out.append(j)
        return out, "%d strings of the edit neighbourhood of valid vectors (incl. wrapped in brackets / quotes / whitespace), where accepted" % len(out)

    def bounded(self, tier, seed):
        rng = random.Random(seed)
        n = 4000 if tier == "quick" else 60000
        jobs = [self.job("3", x) for x in list(v3_all_base((1,)))[::7] + v3_random(rng, n)]
        jobs += [self.job("2", x) for x in list(v2_all_base()) + v2_random(rng, n)]
        jobs += [self.job("4", x) for x in v4_random(rng, n)]
        return jobs, "every 7th v3.1 base vector, all 729 v2 base vectors, %d random vectors per version" % n


class C03(VectorProperty):
    id = "C03"
    native = "C03"
    trusted = ("A0", "A2", "A7", "FD")
    technique = "contracts on cvss2.py scoring functions; VCs from the AST, finite-domain evaluation + z3; certified decimal enclosures"
    contracts = [("contracts.cvss2", V2_SCORING), ("contracts.init", [("cvss2", "CVSS2.__init__")])]

    def job(self, ver, vector, o=None):
        return {"check": "C03", "input": {"vector": vector}}

    def bounded(self, tier, seed):
        rng = random.Random(seed)
        vs = list(v2_all_base()) + v2_random(rng, 20000 if tier == "quick" else 200000)
        return [self.job("2", x) for x in vs], "all 729 base vectors + %d random v2 vectors" % (len(vs) - 729)


C01.jobs = lambda self, tier: contract_jobs("contracts.cvss3", V3_SCORING) + contract_jobs("contracts.init", [("cvss3", "CVSS3.__init__")])



PARSE_V23 = [("cvss2", "CVSS2.parse_vector"), ("cvss3", "CVSS3.parse_vector"), ("cvss4", "CVSS4.parse_vector")]
INIT_V23 = [("cvss2", "CVSS2.check_mandatory"), ("cvss3", "CVSS3.check_mandatory"), ("cvss4", "CVSS4.check_mandatory"),
            ("cvss2", "CVSS2.__init__"), ("cvss3", "CVSS3.__init__"), ("cvss4", "CVSS4.__init__")]

V4_SCORING = [("cvss4", "CVSS4." + n) for n in (
    "m", "macroVector", "extract_value_metric", "add_missing_optional", "compute_base_score",
    "compute_severity", "scores")]


def acc(names, versions=("2", "3", "4")):
    out = []
    for v in versions:
        for n in names:
            if v == "4" and n in ("temporal_vector", "environmental_vector"):
                continue
            out.append(("cvss" + v, "CVSS%s.%s" % (v, n)))
    return out


def split_by_module(keys):
    by = {}
    for k in keys:
        by.setdefault({"cvss2": "contracts.cvss2", "cvss3": "contracts.cvss3", "cvss4": "contracts.cvss4"}[k[0]], []).append(k)
    return list(by.items())


WF_CONE = [("contracts.parse", PARSE_V23), ("contracts.init", INIT_V23),
           ("contracts.cvss3", V3_SCORING), ("contracts.cvss2", V2_SCORING), ("contracts.cvss4", V4_SCORING)]


def edit_neighbourhood(rng, n_seeds, per_seed):
    """strings within one edit of valid vectors: character insert / delete / replace, field drop /
    duplicate / swap / transplant, prefix damage"""
    alphabet = ["/", ":", "X", "x", " ", "{", "}", "{0}", "0", "1", "\u0661", "\uff10", "N", "\n", "\t", "é", "", "ND"]
    out = []
    gens = [("2", v2_random), ("3", v3_random), ("4", v4_random)]
    for ver, gen in gens:
        seeds = gen(rng, n_seeds)
        others = {"2": v3_random(rng, 3), "3": v4_random(rng, 3), "4": v2_random(rng, 3)}[ver]
        for s in seeds:
            out.append((ver, s))
            for _ in range(per_seed):
                k = rng.random()
                i = rng.randrange(len(s) + 1)
                if k < 0.25:
                    t = s[:i] + rng.choice(alphabet) + s[i:]
                elif k < 0.45:
                    t = s[:i] + s[i + 1:]
                elif k < 0.62:
                    t = s[:i] + rng.choice(alphabet) + s[i + 1:]
                elif k < 0.7:
                    # letter case of one character or of one whole value
                    fs = s.split("/")
                    j = rng.randrange(len(fs))
                    if ":" in fs[j] and rng.random() < 0.7:
                        a, b = fs[j].split(":", 1)
                        b = rng.choice([b.upper(), b.lower(), b.capitalize(), b.swapcase()])
                        if rng.random() < 0.2:
                            a = a.lower()
                        fs[j] = a + ":" + b
                        t = "/".join(fs)
                    else:
                        t = s[:i] + s[i:i + 1].swapcase() + s[i + 1:]
                else:
                    fs = s.split("/")
                    j = rng.randrange(len(fs))
                    op = rng.random()
                    if op < 0.25:
                        fs = fs[:j] + fs[j + 1:]
                    elif op < 0.5:
                        fs = fs[:j] + [fs[j]] + fs[j:]
                    elif op < 0.75 and len(fs) > 1:
                        l = rng.randrange(len(fs))
                        fs[j], fs[l] = fs[l], fs[j]
                    else:
                        fs.insert(j, rng.choice(rng.choice(others).split("/")))
                    t = "/".join(fs)
                out.append((ver, t))
            # the whole vector wrapped in / followed by what surrounds vectors in prose
            for a, b in (("(", ")"), ("[", "]"), ("<", ">"), ('"', '"'), ("'", "'"), (" ", " "), ("", "."), ("", ","), ("", ";"),
                         ("", "\n"), ("\t", ""), ("", " "), (" ", ""), ("", ")"), ("(", ""), ("", "/"), ("/", ""), ("#", "")):
                out.append((ver, a + s + b))
            # prefix damage
            if ver != "2":
                for bad in ("CVSS:3.2/", "CVSS:4.1/", "cvss:3.1/", "CVSS:3.\u0661/", "CVSS:3.\uff10/", "CVSS:3.1", "", "CVSS:3.1//"):
                    out.append((ver, bad + s.split("/", 1)[1]))
    return out


class C04(VectorProperty):
    def bounded(self, tier, seed):
        rng = random.Random(seed)
        strs = edit_neighbourhood(rng, 25 if tier == "quick" else 200, 120 if tier == "quick" else 300)
        return [self.job(ver, s) for ver, s in strs], "%d strings: valid vectors and their one-edit neighbourhood (characters incl. braces, whitespace, non-ASCII digits; field drop/duplicate/swap/transplant; damaged prefixes)" % len(strs)

    def widen(self, o, tier):
        return self.bounded(tier, 1)[0]

    id = "C04"
    native = "C04"
    trusted = ("A0", "A1", "A7")
    technique = "contracts with a quantified loop invariant (ghost source index) on parse_vector; iff-contracts on check_mandatory and the constructors; z3 E-matching over abstract strings"
    contracts = [("contracts.parse", PARSE_V23), ("contracts.init", INIT_V23)]


class C05(VectorProperty):
    wf = True

    def jobs(self, tier):
        return (VectorProperty.jobs(self, tier)
                + lemma_jobs("lemmas.spelling", "perm", [{"version": v} for v in ("2", "3", "4")])
                + lemma_jobs("lemmas.spelling", "spelling", [{"version": v, "mode": m} for v in ("2", "3", "4") for m in ("spelled", "minimal")]))

    id = "C05"
    native = "C05"
    trusted = ("A0", "A1", "A2", "A7", "FD")
    technique = ("parse contract (the metric map is the one the field set denotes) + lemma L-perm (permuted fields denote the same map, "
                 "quantified, z3) + accessor postconditions stated over the map only + lemma L-spelling (the fully spelled-out and the "
                 "minimal spelling of a map give the same specification value for every observable)")
    contracts = [("contracts.parse", PARSE_V23)] + split_by_module(acc(
        ["scores", "severities", "clean_vector", "rh_vector", "temporal_vector", "environmental_vector", "__eq__", "__hash__"]))


def reparse_jobs(kind, versions=("2", "3", "4")):
    return lemma_jobs("lemmas.reparse", kind, [{"version": v} for v in versions])


class C07(VectorProperty):
    wf = True

    def concretize(self, o):
        out = VectorProperty.concretize(self, o)
        model = o.get("model") or {}
        unit = o.get("unit", "")
        if "__eq__" in unit and any(k.startswith("p.") for k in model):
            for ver, f in (("3", v3_vector_from_model), ("2", v2_vector_from_model), ("4", v4_vector_from_model)):
                if unit.startswith("cvss" + ver):
                    a, b = f(model, "o"), f(model, "p")
                    if a and b:
                        out.insert(0, {"check": "C07", "input": {"version": ver, "vector": a, "other": {"version": ver, "vector": b}}})
        return out

    def jobs(self, tier):
        return VectorProperty.jobs(self, tier) + reparse_jobs("reparse")

    id = "C07"
    native = "C07"
    trusted = ("A0", "A1", "FD")
    technique = "whole-string postcondition on clean_vector (structured symbolic strings), iff-contract on __eq__, hash-of-canonical contract"
    contracts = split_by_module(acc(["clean_vector", "__eq__", "__hash__"]))


class C08(VectorProperty):
    wf = True

    def widen(self, o, tier):
        if o.get("unit", "").startswith("interactive"):
            return builder_sessions(random.Random(1), 2000)
        return VectorProperty.widen(self, o, tier)

    def jobs(self, tier):
        return (VectorProperty.jobs(self, tier) + contract_jobs("contracts.interactive", [("interactive", "ask_interactively")]) + lemma_jobs("lemmas.regex", "emitted_in_official", [{"version": v} for v in ("2", "3.0", "3.1", "4")])
                + reparse_jobs("reparse"))

    id = "C08"
    native = "C08"
    trusted = ("A0", "A1", "A4", "A7", "FD")
    technique = "clean_vector/rh_vector postconditions and the builder's contract (incl. int/float twins of the version argument) + regular-language inclusion of the emitted language in the official vectorString pattern (z3 regex) + re-parse lemma running the real parser on the emitted structured string"
    contracts = split_by_module(acc(["clean_vector", "rh_vector"]))


class C09(VectorProperty):
    wf = True
    id = "C09"
    native = "C09"
    trusted = ("A0", "A2", "A3", "A7", "FD")
    technique = "postconditions of scores/severities/as_json/rh_vector against the official rating scale, all score leaves are one-decimal floats in [0,10]"
    contracts = split_by_module(acc(["scores", "severities", "rh_vector", "as_json"]))


class C10(VectorProperty):
    wf = True
    exclude = ()

    def jobs(self, tier):
        return VectorProperty.jobs(self, tier) + lemma_jobs("lemmas.regex", "grammar_in_official", [{"version": v} for v in ("2", "3.0", "3.1", "4")])

    id = "C10"
    native = "C10"
    trusted = ("A0", "A6", "A7", "FD")
    technique = "as_json postcondition: every fragment of the pinned official schema holds on every leaf combination of the returned document"
    contracts = split_by_module(acc(["as_json"]))


class C11(VectorProperty):
    wf = True
    id = "C11"
    native = "C11"
    trusted = ("A0", "A7", "FD")
    technique = "whole-document postcondition of as_json against an independent field/value-name table; presence conditions for minimal; key order for sort"
    contracts = split_by_module(acc(["as_json", "get_value_description"]))


class C12(VectorProperty):
    wf = True

    def jobs(self, tier):
        return VectorProperty.jobs(self, tier) + reparse_jobs("roundtrip")

    id = "C12"
    native = "C12"
    trusted = ("A0", "A1", "A3", "FD")
    technique = "rh_vector postcondition, from_rh_vector contract with float() as an assumed contract"
    contracts = split_by_module(acc(["rh_vector"])) + [("contracts.init", [("cvss2", "CVSS2.from_rh_vector"), ("cvss3", "CVSS3.from_rh_vector"), ("cvss4", "CVSS4.from_rh_vector")])]


class C15(VectorProperty):
    wf = True

    def jobs(self, tier):
        return VectorProperty.jobs(self, tier) + reparse_jobs("reassemble", ("2", "3"))

    id = "C15"
    native = "C15"
    trusted = ("A0", "A1", "FD")
    technique = "whole-string postconditions on temporal_vector/environmental_vector"
    contracts = split_by_module(acc(["temporal_vector", "environmental_vector"]))


ALL_ACC = ["scores", "severities", "clean_vector", "rh_vector", "temporal_vector", "environmental_vector",
           "get_value_description", "as_json", "__hash__", "__eq__"]


class C18(VectorProperty):
    id = "C18"
    native = "C18"
    trusted = ("A0", "FD")
    technique = "frame conditions (modifies nothing, no global write, fresh result), totality (no raising path) and functional postconditions of every accessor"
    contracts = split_by_module(acc(ALL_ACC))


class C19(VectorProperty):
    def seed_job(self, seed):
        return self.bounded("quick", seed)[0][-1]

    def concretize(self, o):
        out = VectorProperty.concretize(self, o)
        if "hash-order" in o.get("name", ""):
            out.insert(0, self.seed_job(0))
        return out

    def widen(self, o, tier):
        out = VectorProperty.widen(self, o, tier)
        if "hash-order" in o.get("name", ""):
            out = [self.seed_job(k) for k in (1, 2, 3)] + out
        return out

    def bounded(self, tier, seed):
        jobs, desc = VectorProperty.bounded(self, tier, seed)
        rng = random.Random(seed)
        strs = []
        for ver, gen in (("2", v2_random), ("3", v3_random), ("4", v4_random)):
            for v in gen(rng, 6):
                fs = v.split("/")
                body = fs[1:] if ver != "2" else fs
                head = fs[:1] if ver != "2" else []
                strs.append((ver, "/".join(head + body)))
                strs.append((ver, "/".join(head + body[3:])))           # several mandatory metrics missing
                strs.append((ver, "/".join(head + body[:2] + body[5:])))
                strs.append((ver, "/".join(head + body + body[:1])))     # duplicate
        text = " ".join(v for ver, v in strs if ver != "4")
        jobs.append({"check": "C19seed", "input": {"strings": strs, "text": text}})
        return jobs, desc + " + hash-seed comparison of %d constructions/rejections and one text extraction under PYTHONHASHSEED 0..3" % len(strs)

    id = "C19"
    native = "C19"
    trusted = ("A0", "A2", "FD")
    technique = "frame/read-set conditions of every function under contract (no module-global or class-attribute write, no stdout, no hash-order iteration), context-generic decimal enclosures"
    contracts = ([("contracts.parse", PARSE_V23), ("contracts.init", INIT_V23)]
                 + split_by_module(acc(ALL_ACC) + V3_SCORING + V2_SCORING))

    def job(self, ver, vector, o=None):
        hist = [{"version": "3", "vector": "CVSS:3.0/AV:N/AC:L/PR:L/UI:R/S:C/C:H/I:H/A:N/IR:L"},
                {"version": "3", "vector": "CVSS:3.1/AV:N/AC:L/PR:L/UI:R/S:C/C:H/I:H/A:N/IR:L"},
                {"version": "2", "vector": "AV:N/AC:L/Au:N/C:P/I:P/A:P/CR:H/IR:H/AR:H"},
                {"version": "2", "vector": "AV:N/AC:L/Au:N/C:P/I:P/A:P/CR:L/IR:L/AR:L"},
                {"version": "3", "vector": "CVSS:3.1/AV:N"}, {"version": "2", "vector": "garbage"}]
        return {"check": "C19", "input": {"version": ver, "vector": vector, "history": hist}}


def v4_vector_from_model(model, prefix="o"):
    from spec import v4 as S4

    if not model:
        return None
    fields = []
    for m in S4.ORDER:
        present = True if m in S4.BASE else bool(_mval(model, "%s.p_%s" % (prefix, m)))
        v = _mval(model, "%s.v_%s" % (prefix, m))
        if present and v in S4.VALUES[m]:
            fields.append("%s:%s" % (m, v))
        elif m in S4.BASE:
            return None
    return "CVSS:4.0/" + "/".join(fields)


def v4_random(rng, n, p=0.4):
    from spec import v4 as S4

    out = []
    for _ in range(n):
        fs = ["%s:%s" % (m, rng.choice(S4.VALUES[m])) for m in S4.BASE]
        for m in S4.THREAT + S4.ENVIRONMENTAL + S4.SUPPLEMENTAL:
            if rng.random() < p:
                fs.append("%s:%s" % (m, rng.choice(S4.VALUES[m])))
        out.append("CVSS:4.0/" + "/".join(fs))
    return out


def v4_neighbourhood(vector, rng, n=1500):
    from spec import v4 as S4

    parts = vector.split("/")
    opt = [p for p in parts[1:] if p.split(":")[0] not in S4.BASE]
    out = []
    for _ in range(n):
        base = ["%s:%s" % (m, rng.choice(S4.VALUES[m])) for m in S4.BASE]
        out.append("CVSS:4.0/" + "/".join(base + opt))
    return out


class C02(Property):
    id = "C02"
    trusted = ("A0", "A2", "A3", "A7", "FD")
    technique = "contracts on cvss4.py scoring functions; one path per macrovector x accepted highest-severity vector; host-float leaves against exact rational specification"

    def jobs(self, tier):
        return contract_jobs("contracts.cvss4", V4_SCORING)

    def concretize(self, o):
        v = v4_vector_from_model(o.get("model") or {})
        return [{"check": "C02", "input": {"vector": v}}] if v else []

    def widen(self, o, tier):
        rng = random.Random(1)
        v = v4_vector_from_model(o.get("model") or {})
        vs = (v4_neighbourhood(v, rng) if v else []) + v4_random(rng, 6000)
        return [{"check": "C02", "input": {"vector": x}} for x in vs]

    def bounded(self, tier, seed):
        rng = random.Random(seed)
        vs = v4_random(rng, 30000 if tier == "quick" else 300000)
        return [{"check": "C02", "input": {"vector": x}} for x in vs], "%d random v4 vectors" % len(vs)


def lemma_jobs(modname, fname, cases, limit=UNIT_LIMIT):
    return [("lemma", modname, fname, dict(c), limit) for c in cases]


ALL_SCORING = [("contracts.cvss3", V3_SCORING), ("contracts.cvss2", V2_SCORING), ("contracts.cvss4", V4_SCORING)]


def scoring_jobs():
    out = []
    for modname, keys in ALL_SCORING:
        out += contract_jobs(modname, keys)
    return out


def parse_case(unit):
    if "[" not in unit:
        return {}
    body = unit[unit.index("[") + 1: unit.rindex("]")]
    return dict(kv.split("=", 1) for kv in body.split(","))


def eff_vectors(ver, model, fixed):
    """vector(s) realising an effective assignment read from a lemma counter-model"""
    from spec import v4 as S4

    def val(m):
        if m in fixed:
            return fixed[m]
        v = _mval(model, "e.%s" % m)
        if v is None:
            # unconstrained by the counter-example: any value of the domain will do
            import lemmas.views as LV

            dom = {"4": LV.EFF4, "3": LV.EFF3, "2": LV.EFF2}[ver]
            if m in dom:
                return dom[m][0]
        return v

    if ver == "4":
        fs = []
        extra = []
        for m in S4.BASE:
            v = val(m)
            if v is None:
                return None
            if m in ("SI", "SA") and v == "S":
                fs.append("%s:H" % m)
                extra.append("M%s:S" % m)
            else:
                fs.append("%s:%s" % (m, v))
        for m in ("E", "CR", "IR", "AR"):
            if val(m) is None:
                return None
        return "CVSS:4.0/" + "/".join(fs + ["E:%s" % val("E"), "CR:%s" % val("CR"), "IR:%s" % val("IR"), "AR:%s" % val("AR")] + extra)
    if ver == "3":
        minor = fixed.get("minor", _mval(model, "e.minor"))
        if minor not in (0, 1):
            minor = 1
        fs = []
        for m in S3.ORDER:
            v = val(m)
            if v is None:
                return None
            fs.append("%s:%s" % (m, v))
        return "CVSS:3.%d/%s" % (minor, "/".join(fs))
    fs = []
    for m in S2.ORDER:
        v = val(m)
        if v is None:
            return None
        fs.append("%s:%s" % (m, v))
    return "/".join(fs)


class C14(Property):
    id = "C14"
    trusted = ("A0", "A2", "A3", "A7", "FD")
    technique = "code contracts (every score equals the specification function) + monotonicity lemmas on those functions decided by exhaustive finite-domain evaluation per metric step"

    def jobs(self, tier):
        import lemmas.mono as M

        return (lemma_jobs("lemmas.mono", "mono_v4", M.CASES4) + lemma_jobs("lemmas.mono", "mono_v3", M.CASES3)
                + lemma_jobs("lemmas.mono", "mono_v2", M.CASES2) + scoring_jobs())

    def concretize(self, o):
        unit = o.get("unit", "")
        model = o.get("model") or {}
        if unit.startswith("lemma:mono_"):
            ver = unit[len("lemma:mono_v")]
            c = parse_case(unit)
            name = o.get("name", "")
            fixed_lo, fixed_hi = {c["metric"]: c["lo"]}, {c["metric"]: c["hi"]}
            which = None
            if ver == "3":
                if "env3.0" in name:
                    fixed_lo["minor"] = fixed_hi["minor"] = 0
                    which = [2]
                elif "env3.1" in name:
                    fixed_lo["minor"] = fixed_hi["minor"] = 1
                    which = [2]
                elif "temporal" in name:
                    which = [1]
                else:
                    which = [0]
                if "undefined" in name:
                    fixed_lo["M" + c["metric"]] = c["lo"]
                    fixed_hi["M" + c["metric"]] = c["hi"]
            if ver == "2":
                which = [1] if "temporal" in name else [0]
            lo, hi = eff_vectors(ver, model, fixed_lo), eff_vectors(ver, model, fixed_hi)
            if lo and hi:
                return [{"check": "C14", "input": {"version": ver, "lo": lo, "hi": hi, "which": which}}]
            return []
        # a scoring obligation failed: replay under the matching scoring property's oracle
        for ver, f, chk in (("3", v3_vector_from_model, "C01"), ("2", v2_vector_from_model, "C03"), ("4", v4_vector_from_model, "C02")):
            if unit.startswith("cvss" + ver):
                v = f(model)
                return [{"check": chk, "input": {"vector": v}}] if v else []
        return []

    def widen(self, o, tier):
        rng = random.Random(2)
        return self.bounded(tier, 2)[0][:20000]

    def bounded(self, tier, seed):
        import lemmas.mono as M

        rng = random.Random(seed)
        n = 20000 if tier == "quick" else 300000
        jobs = []
        for _ in range(n):
            ver = rng.choice("234")
            order = {"2": M.ORDER2, "3": M.ORDER3, "4": M.ORDER4}[ver]
            m = rng.choice(sorted(order))
            i = rng.randrange(len(order[m]) - 1)
            lo_v, hi_v = order[m][i], order[m][i + 1]
            if ver == "4":
                base = v4_random(rng, 1, p=0.0)[0].split("/")
                d = dict(f.split(":") for f in base[1:])
                for k in ("E", "CR", "IR", "AR"):
                    d[k] = rng.choice([x for x in __import__("spec.v4", fromlist=["x"]).VALUES[k] if x != "X"])

                def mk(val):
                    dd = dict(d)
                    if m in ("SI", "SA") and val == "S":
                        dd["M" + m] = "S"
                    else:
                        dd[m] = val
                    return "CVSS:4.0/" + "/".join("%s:%s" % kv for kv in dd.items())

                jobs.append({"check": "C14", "input": {"version": "4", "lo": mk(lo_v), "hi": mk(hi_v)}})
            elif ver == "3":
                minor = rng.choice((0, 1))
                d = {k: rng.choice([x for x in S3.VALUES[k] if x != "X"]) for k in S3.ORDER}
                which = [0, 1] + ([2] if not (minor == 0 and m in M.EXEMPT30) else [])
                if m in S3.BASE:
                    d.pop("M" + m, None)

                def mk3(val):
                    dd = dict(d)
                    dd[m] = val
                    return "CVSS:3.%d/" % minor + "/".join("%s:%s" % kv for kv in dd.items())

                jobs.append({"check": "C14", "input": {"version": "3", "lo": mk3(lo_v), "hi": mk3(hi_v), "which": which}})
            else:
                d = {k: rng.choice([x for x in S2.VALUES[k] if x != "ND"]) for k in S2.BASE + S2.TEMPORAL}

                def mk2(val):
                    dd = dict(d)
                    dd[m] = val
                    return "/".join("%s:%s" % kv for kv in dd.items())

                jobs.append({"check": "C14", "input": {"version": "2", "lo": mk2(lo_v), "hi": mk2(hi_v), "which": [0, 1]}})
        return jobs, "%d random one-step pairs over v2, v3, v4" % n


class C06(VectorProperty):
    id = "C06"
    native = "C06"
    trusted = ("A0", "A2", "A3", "A7", "FD")
    technique = "code contracts (scores equal Spec(Eff(O))) + non-interference lemmas on Eff and on the support of the specification functions"
    contracts = []

    def jobs(self, tier):
        return (lemma_jobs("lemmas.ni", "ni_v3", [{}]) + lemma_jobs("lemmas.ni", "ni_v2", [{}])
                + lemma_jobs("lemmas.ni", "ni_v4", [{}]) + scoring_jobs())

    def vectors_of(self, o):
        unit = o.get("unit", "")
        model = o.get("model") or {}
        out = VectorProperty.vectors_of(self, o)
        if unit.startswith("cvss4") or unit.startswith("lemma:ni_v4"):
            v = v4_vector_from_model(model)
            if v:
                out.append(("4", v))
        if unit.startswith("lemma:ni_v3"):
            v = v3_vector_from_model(model)
            if v:
                out.append(("3", v))
        if unit.startswith("lemma:ni_v2"):
            v = v2_vector_from_model(model)
            if v:
                out.append(("2", v))
        return out

    def widen(self, o, tier):
        rng = random.Random(1)
        out = VectorProperty.widen(self, o, tier)
        unit = o.get("unit", "")
        if "4" in unit.split("[")[0]:
            out += [self.job("4", x) for x in v4_random(rng, 2500)]
        return out

    def bounded(self, tier, seed):
        rng = random.Random(seed)
        n = 1500 if tier == "quick" else 30000
        jobs = [self.job("3", x) for x in v3_random(rng, n)] + [self.job("2", x) for x in v2_random(rng, n)]
        jobs += [self.job("4", x) for x in v4_random(rng, n)]
        return jobs, "%d random vectors per version" % n


def builder_sessions(rng, n):
    from spec import v4 as S4

    out = []
    specs = {2: S2, 3.0: S3, 3.1: S3, 4.0: S4}
    for _ in range(n):
        version = rng.choice([2, 3.0, 3.1, 4.0, 2, 3.0, 3.1, 4.0, 3, 4, 2.0])  # incl. the int / float twins
        sp = specs[version]
        allm = rng.random() < 0.6
        metrics = list(sp.ORDER) if allm else list(sp.BASE)
        answers = []
        for m in metrics:
            # some rejected answers first (illegal, empty where not legal, another metric's value)
            while rng.random() < 0.25:
                answers.append(rng.choice(["zz", "", " ", "?", "NDX", "x y", rng.choice(sp.VALUES[rng.choice(metrics)])]))
            v = rng.choice(sp.VALUES[m])
            style = rng.random()
            if style < 0.25:
                v = v.lower()
            elif style < 0.4:
                v = "  " + v + " "
            elif style < 0.5 and v in ("X", "ND"):
                v = ""
            answers.append(v)
        if rng.random() < 0.1:
            answers = answers[: rng.randrange(len(answers))]
        out.append({"check": "C16", "input": {"version": version, "all_metrics": allm, "answers": answers}})
    return out


class C16(Property):
    id = "C16"
    trusted = ("A0", "A1", "A5")
    technique = "contract on ask_interactively with ghost stdin/stdout; the answer loop verified as a shape-independent block contract (a rejected iteration is a no-op with an illegal answer, the accepting iteration is executed; postcondition over the recorded answers); ground selectability executions of the real loop"

    def jobs(self, tier):
        import contracts.interactive as CI

        return (contract_jobs("contracts.interactive", [("interactive", "ask_interactively")])
                + lemma_jobs("contracts.interactive", "selectable", [{"version": v} for v in (2, 3.0, 3.1, 4.0)]))

    def concretize(self, o):
        return []

    def widen(self, o, tier):
        return builder_sessions(random.Random(1), 3000)

    def bounded(self, tier, seed):
        n = 3000 if tier == "quick" else 40000
        return builder_sessions(random.Random(seed), n), "%d random scripted sessions (all versions, valid / invalid / empty / any-case answers, premature EOF)" % n


def text_jobs(rng, n):
    out = []
    delims = [" ", ".", ",", "\n", "(", ")", "1", "-", "_", '"', "3", ";", "=", "\t", "é"]
    filler = ["", "see", "CVSS", "CVSS:3", "score 7.5", "AV:N/AC:L", "vector:", "xx/yy:zz" * 5, "A" * 30, "CVSS:3.1/", "http://a/b:c"]
    for _ in range(n):
        parts = []
        expected = []
        for _ in range(rng.randrange(1, 5)):
            kind = rng.random()
            if kind < 0.45:
                v = v2_random(rng, 1)[0]
                ver = "2"
            else:
                v = v3_random(rng, 1)[0]
                ver = "3"
            mode = rng.random()
            if mode < 0.15:
                # equivalent respelling of an earlier vector: must not produce a duplicate
                fs = v.split("/")
                head, body = ([fs[0]], fs[1:]) if ver == "3" else ([], fs)
                rng.shuffle(body)
                parts.append(rng.choice(filler) + rng.choice(delims) + v + rng.choice(delims) + "/".join(head + body))
                expected.append((ver, v))
                continue
            if mode < 0.3:
                # near-valid candidate: must simply be ignored
                parts.append(rng.choice(delims) + v[:-1] + rng.choice(["", "/", "Q", ":"]))
                continue
            if mode < 0.4:
                # glued to vector-like characters: no completeness claim
                parts.append("x" + v + rng.choice(["", "y", "/", ":"]))
                continue
            parts.append(rng.choice(filler) + rng.choice(delims) + v + rng.choice(delims + [""]))
            if parts[-1].endswith(v):
                parts[-1] += rng.choice(delims)
            expected.append((ver, v))
        text = rng.choice(delims).join(parts)
        # only claim completeness for vectors that are really delimited on both sides in the final text
        import re as _re

        exp2 = []
        for ver, v in expected:
            for m in _re.finditer(_re.escape(v), text):
                a, b = m.start(), m.end()
                left = text[a - 1] if a > 0 else " "
                right = text[b] if b < len(text) else " "
                if not _re.match("[A-Za-z:/]", left) and not _re.match("[A-Za-z:/]", right):
                    exp2.append((ver, v))
                    break
        out.append({"check": "C13", "input": {"text": text, "delimited": exp2}})
    return out


class C13(Property):
    id = "C13"
    trusted = ("A0", "A1", "A4", "A7")
    technique = "contract on parse_cvss_from_text (opaque accumulator, findall contract) + constructor raises-clauses + regular-language lemmas on the pattern extracted from parser.py (z3 regex)"
    exclude = ("*/schema:*",)

    def jobs(self, tier):
        jobs = contract_jobs("contracts.textparser", [("parser", "parse_cvss_from_text")])
        jobs += lemma_jobs("lemmas.regex", "parser_complete", [{}])
        for modname, keys in [("contracts.parse", PARSE_V23[:2]), ("contracts.init", [k for k in INIT_V23 if k[0] != "cvss4"]),
                              ("contracts.cvss3", V3_SCORING + [("cvss3", "CVSS3.__eq__"), ("cvss3", "CVSS3.clean_vector")]),
                              ("contracts.cvss2", V2_SCORING + [("cvss2", "CVSS2.__eq__"), ("cvss2", "CVSS2.clean_vector")])]:
            jobs += contract_jobs(modname, keys)
        return jobs

    def concretize(self, o):
        w = (o.get("model") or {}).get("witness")
        if isinstance(w, str):
            import re as _re

            w = _re.sub(r"\\u\{([0-9a-fA-F]+)\}", lambda m: chr(int(m.group(1), 16)), w)
            out = [{"check": "C13", "input": {"text": " %s " % w, "delimited": []}}]
            # a witness of a delimiter lemma: its characters outside [A-Za-z:/] are tried as
            # delimiters directly before / after sample valid vectors
            sample = [("2", "AV:N/AC:L/Au:N/C:C/I:C/A:C"), ("3", "CVSS:3.0/AV:N/AC:L/PR:N/UI:N/S:U/C:H/I:H/A:H"),
                      ("3", "CVSS:3.1/AV:L/AC:H/PR:L/UI:R/S:C/C:L/I:N/A:H/E:P/MAV:A")]
            for c in sorted({ch for ch in w if not (ch.isascii() and (ch.isalpha() or ch in ":/"))}):
                for ver, v in sample:
                    for text in (c + v, v + c, c + v + c, "see " + v + c + " and", "x" + c + v):
                        out.append({"check": "C13", "input": {"text": text, "delimited": [[ver, v]]}})
            return out
        return []

    def widen(self, o, tier):
        return text_jobs(random.Random(1), 3000)

    def bounded(self, tier, seed):
        n = 4000 if tier == "quick" else 60000
        return text_jobs(random.Random(seed), n), "%d random texts (valid, near-valid, respelled, glued vectors between random fillers/delimiters)" % n


def cli_jobs(rng, n):
    out = []
    for _ in range(n):
        ver = rng.choice([None, "2", "3", "4"])
        flags = [f for f in ("-a", "-n", "-j") if rng.random() < 0.4]
        kind = rng.random()
        gen = {None: v3_random, "2": v2_random, "3": v3_random, "4": v4_random}[ver]
        vec = gen(rng, 1)[0]
        if ver == "3":
            vec = vec.replace("CVSS:3.1", "CVSS:3.0")
        if kind < 0.25:
            vec = rng.choice(["garbage", "AV:N", "CVSS:3.1/AV:N", "CVSS:4.0/AV:N/AC:L", vec[:-1], vec + "/", vec.replace("/", "//", 1), v2_random(rng, 1)[0], v4_random(rng, 1)[0]])
        argv = ([("-" + ver)] if ver else []) + flags
        stdin = None
        if rng.random() < 0.2:
            stdin = "\n".join(rng.choice(["N", "L", "H", "", "x", "P", "A", "C", "U"]) for _ in range(rng.randrange(0, 40)))
        else:
            argv += ["-v", vec]
        out.append({"check": "C17", "input": {"argv": argv, "stdin": stdin}})
    return out


class C17(Property):
    id = "C17"
    exclude = ("*/schema:*",)  # schema validity of the JSON document is C10's business
    trusted = ("A0", "A1", "A5", "FD")
    technique = "contract on cvss_calculator.main with modelled argparse namespace and ghost stdout compared as text, verified against the callee contracts of the constructors, accessors, as_json and the builder, which are in the cone"

    def jobs(self, tier):
        # the calculator's own code, the builder it calls and the library functions whose
        # contracts it relies on (constructors, accessors)
        jobs = contract_jobs("contracts.cli", [("cvss_calculator", "main")])
        jobs += contract_jobs("contracts.interactive", [("interactive", "ask_interactively")])
        for modname, keys in [("contracts.init", INIT_V23)] + split_by_module(acc(["scores", "severities", "clean_vector", "rh_vector", "as_json"])):
            jobs += contract_jobs(modname, keys)
        return jobs

    def concretize(self, o):
        return []

    def widen(self, o, tier):
        return cli_jobs(random.Random(1), 400)

    def bounded(self, tier, seed):
        n = 300 if tier == "quick" else 4000
        return cli_jobs(random.Random(seed), n), "%d random command lines (subprocess runs of python -m cvss.cvss_calculator)" % n


PROPERTIES = {p.id: p() for p in [C01, C02, C03, C04, C05, C06, C07, C08, C09, C10, C11, C12, C13, C14, C15, C16, C17, C18, C19]}
