"""
property id -> obligation cone (contracts on real functions + lemmas), counter-model
concretisation, native replay oracle and bounded stand-in.
"""
from __future__ import annotations

import itertools
import random

from pyvc.driver import Property
from spec import v2 as S2, v3 as S3

UNIT_LIMIT = 600


def contract_jobs(modname, keys, limit=UNIT_LIMIT):
    import importlib

    importlib.import_module(modname)
    from pyvc.contract import REGISTRY

    jobs = []
    for key in keys:
        c = REGISTRY[key]
        for case in c.cases:
            jobs.append(("contract", modname, list(key), dict(case), limit))
    return jobs


# --------------------------------------------------------------------------------------------
# counter-model -> vector strings


def _mval(model, name):
    v = model.get(name)
    if isinstance(v, dict):
        return v.get("str") if v.get("str") is not None else v.get("int")
    return v


def v3_vector_from_model(model, prefix="o"):
    if not model:
        return None
    minor = _mval(model, prefix + ".minor")
    if minor not in (0, 1):
        minor = 1
    fields = []
    for m in S3.ORDER:
        present = True if m in S3.BASE else bool(_mval(model, "%s.p_%s" % (prefix, m)))
        v = _mval(model, "%s.v_%s" % (prefix, m))
        if present and v in S3.VALUES[m]:
            fields.append("%s:%s" % (m, v))
        elif m in S3.BASE:
            return None
    return "CVSS:3.%d/%s" % (minor, "/".join(fields))


def v3_neighbourhood(vector, rng, n=400):
    """vectors sharing the optional part of `vector` with every base assignment (sampled) and
    both minor versions; plus the vector with each optional metric dropped"""
    parts = vector.split("/")
    opt = [p for p in parts[1:] if p.split(":")[0] not in S3.BASE]
    out = []
    combos = list(itertools.product(*[S3.VALUES[m] for m in S3.BASE]))
    rng.shuffle(combos)
    for combo in combos[:n]:
        base = ["%s:%s" % (m, v) for m, v in zip(S3.BASE, combo)]
        for minor in (0, 1):
            out.append("CVSS:3.%d/%s" % (minor, "/".join(base + opt)))
    return out


def v3_all_base(minors=(0, 1)):
    for minor in minors:
        for combo in itertools.product(*[S3.VALUES[m] for m in S3.BASE]):
            yield "CVSS:3.%d/%s" % (minor, "/".join("%s:%s" % (m, v) for m, v in zip(S3.BASE, combo)))


def v3_random(rng, n):
    out = []
    for _ in range(n):
        minor = rng.choice((0, 1))
        fs = ["%s:%s" % (m, rng.choice(S3.VALUES[m])) for m in S3.BASE]
        for m in S3.TEMPORAL + S3.ENVIRONMENTAL:
            if rng.random() < 0.55:
                fs.append("%s:%s" % (m, rng.choice(S3.VALUES[m])))
        out.append("CVSS:3.%d/%s" % (minor, "/".join(fs)))
    return out


V3_SCORING = [
    ("cvss3", "CVSS3.get_value"),
    ("cvss3", "CVSS3.handle_scope"),
    ("cvss3", "CVSS3.add_missing_optional"),
    ("cvss3", "CVSS3.compute_isc_base"),
    ("cvss3", "CVSS3.compute_isc"),
    ("cvss3", "CVSS3.compute_esc"),
    ("cvss3", "CVSS3.compute_base_score"),
    ("cvss3", "CVSS3.compute_temporal_score"),
    ("cvss3", "CVSS3.compute_modified_isc_base"),
    ("cvss3", "CVSS3.compute_modified_isc_30"),
    ("cvss3", "CVSS3.compute_modified_isc"),
    ("cvss3", "CVSS3.compute_modified_esc"),
    ("cvss3", "CVSS3.compute_environmental_score"),
    ("cvss3", "CVSS3.scores"),
]


class C01(Property):
    id = "C01"
    trusted = ("A0", "A2", "A7", "FD")
    technique = "contracts on cvss3.py scoring functions; VCs from the AST, finite-domain evaluation + z3; certified decimal enclosures"

    def jobs(self, tier):
        return contract_jobs("contracts.cvss3", V3_SCORING)

    def concretize(self, o):
        v = v3_vector_from_model(o.get("model") or {})
        return [{"check": "C01", "input": {"vector": v}}] if v else []

    def widen(self, o, tier):
        rng = random.Random(1)
        v = v3_vector_from_model(o.get("model") or {})
        vs = v3_neighbourhood(v, rng) if v else []
        vs += v3_random(rng, 3000)
        return [{"check": "C01", "input": {"vector": x}} for x in vs]

    def bounded(self, tier, seed):
        rng = random.Random(seed)
        vs = list(v3_all_base()) + v3_random(rng, 20000 if tier == "quick" else 200000)
        return [{"check": "C01", "input": {"vector": x}} for x in vs], "all 2x2592 base vectors + %d random v3 vectors" % (len(vs) - 5184)


PROPERTIES = {p.id: p() for p in [C01]}
