#!/usr/bin/env python3
"""tools_table.py <matrix log>: markdown table 'which check catches which seeded change' + meta.json update"""
import json, re, sys, os

log = sys.argv[1]
rows = []
for line in open(log):
    m = re.match(r"(C\d\d)/([A-F]) rc=(\d+) (\d+)s violations=(\d+) nofail=(\d+) first=\[(.*?)\]\s*(.*)", line)
    if not m:
        continue
    pid, letter, rc, secs, viol, nofail, first, rest = m.groups()
    und = re.findall(r"UNDECIDED: ([^|]*)", rest)
    d = "/verif/seeded/%s-%s" % (pid, letter)
    meta = json.load(open(d + "/meta.json"))
    kind = meta.get("kind") or ("benign" if letter in ("D", "F") else "breaking")
    summary = (meta.get("summary") or "").replace("\n", " ").replace("|", "/")
    expected = 0 if kind == "benign" else 1
    ok = int(rc) == expected
    how = ""
    if kind == "breaking":
        if first.startswith("bounded-stand-in"):
            how = "bounded stand-in (deductive part undecided: %s)" % (und[0].split(": ", 1)[-1][:70] if und else "?")
        else:
            how = "`%s`%s" % (first.replace(" no-failing-input-found", ""), " (no failing input found)" if "no-failing-input-found" in first else ", replayed")
    else:
        how = "exit 0" + (", part undecided → bounded stand-in passed (%s)" % und[0].split(": ", 1)[-1][:60] if und else ", all obligations discharged")
    rows.append((pid, letter, kind, ok, how, summary, int(secs)))
    meta["breaks_property"] = pid if kind == "breaking" else None
    meta["builder_check_run"] = {
        "command": "git apply patch.diff in a scratch worktree of /repo HEAD; CVSS_REPO=<worktree> python3-vt -m pyvc check %s --tier quick; worktree removed" % pid,
        "exit_code": int(rc), "expected_exit_code": expected, "result": how, "wall_s": int(secs),
    }
    meta.setdefault("confirmed_by_builder", {"when": "2026-09-29" if letter in ("E", "F") else "2026-09-26", "how": "scratch worktree of /repo HEAD (tools_confirm2.sh): demo exit 0 on the unchanged tree, git apply ok, pytest still '21 failed, 34 passed' with the same passed ids, demo exit %s with the patch" % ("0" if kind == "benign" else "!= 0"), "worktree_removed": True})
    json.dump(meta, open(d + "/meta.json", "w"), indent=1)
print("| change | kind | outcome of the property's check | what the change does |")
print("|---|---|---|---|")
for pid, letter, kind, ok, how, summary, secs in rows:
    print("| %s-%s | %s | %s%s | %s |" % (pid, letter, kind, "" if ok else "**UNEXPECTED** ", how, summary[:150]))
bad = [r for r in rows if not r[3]]
print("\n%d changes, %d as expected, %d unexpected" % (len(rows), len(rows) - len(bad), len(bad)), file=sys.stderr)
