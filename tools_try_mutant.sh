#!/bin/bash
# usage: tools_try_mutant.sh <patch.diff> <prop> [more props...]  -- applies patch to /repo, runs checks, reverts
patch=$1; shift
cd /repo && git apply "$patch" || { echo "APPLY FAILED"; exit 9; }
cd /verif
for p in "$@"; do
  timeout 1500 python3-vt -m pyvc check $p 2>&1 | grep -v "^  unit" | tail -12
  echo "== $p exit=${PIPESTATUS[0]}"
done
cd /repo && git checkout -- . && git status --short | head -3
