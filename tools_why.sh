#!/bin/bash
# usage: tools_why.sh <Cxx-L> ... : run the property's check against a seeded change in a scratch worktree and print why
WT=/tmp/mx_wt2
git -C /repo worktree remove --force $WT 2>/dev/null
git -C /repo worktree add -q --detach $WT HEAD
for m in "$@"; do
  id=${m%%-*}
  cd $WT && git checkout -q -- . && git apply /verif/seeded/$m/patch.diff || { echo "$m APPLY-FAILED"; continue; }
  cd /verif
  o=$(CVSS_REPO=$WT timeout 2400 python3-vt -m pyvc check $id 2>&1)
  echo "== $m rc=$?"; echo "$o" | grep -E "^(VIOLATION|UNDECIDED|KNOWN|ERROR)| quick: " | cut -c1-330 | head -8
done
cd /; git -C /repo worktree remove --force $WT
