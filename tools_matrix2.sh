#!/bin/bash
# usage: tools_matrix2.sh <outdir> <letters> ids... : run each property's own check against its seeded changes
# in a scratch worktree (CVSS_REPO), never in /repo
out=$1; shift; letters=$1; shift
WT=/tmp/mx_wt
git -C /repo worktree remove --force $WT 2>/dev/null
git -C /repo worktree add -q --detach $WT HEAD
for id in "$@"; do
  for m in $letters; do
    d=$out/$id/$m; [ -f $d/patch.diff ] || d=$out/$id-$m
    [ -f $d/patch.diff ] || continue
    cd $WT && git checkout -q -- . && git apply $d/patch.diff 2>/dev/null || { echo "$id/$m APPLY-FAILED"; continue; }
    cd /verif
    s=$(date +%s)
    o=$(CVSS_REPO=$WT timeout 2400 python3-vt -m pyvc check $id 2>&1); rc=$?
    v=$(echo "$o" | grep -c "^VIOLATION")
    nf=$(echo "$o" | grep -c "no-failing-input-found")
    first=$(echo "$o" | grep "^VIOLATION" | head -1 | sed 's/.*obligation=//' | cut -c1-90)
    und=$(echo "$o" | grep "^UNDECIDED" | head -2 | cut -c1-140 | tr '\n' '|')
    echo "$id/$m rc=$rc $(( $(date +%s) - s ))s violations=$v nofail=$nf first=[$first] $und $(echo "$o" | grep -E " quick: |bounded stand-in passed" | cut -c1-150 | tr '\n' '|')"
  done
done
cd /; git -C /repo worktree remove --force $WT
