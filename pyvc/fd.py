"""
pyvc.fd -- finite-domain values as a DAG of table nodes.

A *Node* denotes a function from the assignments of the base variables to a finite set of
concrete leaf values.  A base variable (Var) has no parents; a derived node has parent nodes and
an explicit table (numpy int array indexed by the parents' value indices) giving the index of
its own value.  Lifting a concrete Python function over nodes (`apply`) evaluates it once per
combination of the *operands'* values and regroups equal results, so the DAG stays shallow and
every table small.

Two decision procedures work on the DAG:

* `valid(pred, constraints)` -- explicit evaluation.  A *cut* is a set of nodes such that the
  predicate and every constraint are functions of the cut; the predicate is evaluated with
  numpy on the full grid of cut values.  Agreement on the whole grid implies validity (grid
  points that no assignment realises can only produce spurious counter-examples, never
  unsoundness); a grid point that violates the predicate is handed to z3 for confirmation.
* z3 guards -- every node value has a Boolean (`guards()`), defined by clauses over the
  parents' Booleans (`definitions()`); the path solver asserts the definitions of every node
  whose guards occur in a query.  This is how finite choices take part in path conditions
  together with abstract strings.
"""
from __future__ import annotations

import itertools

import numpy as np
import z3

_ids = itertools.count(1)

# ast-id of a guard Boolean -> (node, value index)
GUARD_REG = {}
# nodes whose guards have been handed out (the path solver must know their definitions)
ALL_NODES = {}

MAX_TABLE = 4_000_000
MAX_GRID = 40_000_000


class TooBig(Exception):
    pass


def vkey(v):
    from .sym import vkey as _vk

    return _vk(v)


class Node(object):
    __slots__ = ("id", "values", "parents", "table", "_guards", "name", "zdefs", "depth", "ite", "__weakref__")

    def __init__(self, values, parents=(), table=None, name=None, zdefs=None):
        self.id = next(_ids)
        self.values = list(values)
        self.parents = tuple(parents)
        self.table = table
        self._guards = None
        self.name = name or ("n%d" % self.id)
        self.zdefs = zdefs  # for bridging variables: list of z3 formulas defining the guards
        self.depth = 1 + max([p.depth for p in self.parents], default=0)
        self.ite = None  # (condition node, then value, else value) when built by ite()

    def __repr__(self):
        vs = ", ".join(repr(v) for v in self.values[:6])
        return "FD(%s:%d: %s%s)" % (self.name, len(self.values), vs, "..." if len(self.values) > 6 else "")

    @property
    def is_var(self):
        return not self.parents

    def guards(self):
        if self._guards is None:
            gs = []
            for i in range(len(self.values)):
                b = z3.Bool("%s=%d" % (self.name, i)) if not isinstance(self.name, tuple) else None
                gs.append(b)
                GUARD_REG[b.get_id()] = (self, i, b)
            self._guards = gs
            ALL_NODES[self.id] = self
        return self._guards

    def set_guards(self, gs):
        """base variables created from existing z3 Booleans"""
        self._guards = list(gs)
        for i, b in enumerate(gs):
            GUARD_REG[b.get_id()] = (self, i, b)
        ALL_NODES[self.id] = self

    @property
    def leaves(self):
        return list(zip(self.guards(), self.values))

    def definitions(self):
        """z3 clauses defining this node's guards from its parents' guards"""
        gs = self.guards()
        out = []
        if self.zdefs is not None:
            out.extend(self.zdefs)
        if len(gs) > 1:
            out.append(z3.PbEq([(g, 1) for g in gs], 1))
        else:
            out.append(gs[0])
        if self.parents:
            if self.table.size > MAX_DEF_ROWS:
                raise TooBig("definition of %s needs %d clauses" % (self.name, self.table.size))
            ctx = z3.main_ctx()
            cref = ctx.ref()
            pgs = [[g.ast for g in p.guards()] for p in self.parents]
            own = [g.ast for g in gs]
            nparents = len(self.parents)
            flat = self.table.reshape(-1)
            shape = self.table.shape
            arr_t = z3.Ast * nparents
            clauses = []
            held = []  # raw ASTs are reference counted by hand until the conjunction is wrapped
            for lin, x in enumerate(flat.tolist()):
                idx = np.unravel_index(lin, shape) if nparents > 1 else (lin,)
                if nparents == 1:
                    ante = pgs[0][idx[0]]
                else:
                    ante = z3.Z3_mk_and(cref, nparents, arr_t(*[pgs[k][int(i)] for k, i in enumerate(idx)]))
                    z3.Z3_inc_ref(cref, ante)
                    held.append(ante)
                cl = z3.Z3_mk_implies(cref, ante, own[x])
                z3.Z3_inc_ref(cref, cl)
                held.append(cl)
                clauses.append(cl)
            if clauses:
                big = z3.Z3_mk_and(cref, len(clauses), (z3.Ast * len(clauses))(*clauses)) if len(clauses) > 1 else clauses[0]
                out.append(z3.BoolRef(big, ctx))
            for a in held:
                z3.Z3_dec_ref(cref, a)
        return out


MAX_DEF_ROWS = 120_000


def var(name, values, guards=None, zdefs=None):
    n = Node(values, (), None, name, zdefs)
    if guards is not None:
        n.set_guards(guards)
    return n


def values_of(x):
    return x.values if isinstance(x, Node) else [x]


class ApplyRaise(Exception):
    """some combinations raise: .exc = [(exception, bool Node selecting those combos)], .ok"""

    def __init__(self, exc, ok):
        Exception.__init__(self)
        self.exc = exc
        self.ok = ok


def apply(f, *args, **opts):
    """
    Lift the concrete function f over nodes.  Returns a concrete value when the result does not
    depend on the operands, else a Node.  If f raises on some combinations, raises ApplyRaise
    carrying, per exception class, a Boolean node that selects the raising combinations and
    (if any combination succeeds) the node of the successful results with a placeholder on the
    raising rows.
    """
    nodes = []
    pos = []
    for a in args:
        if isinstance(a, Node):
            if a not in nodes:
                nodes.append(a)
            pos.append(nodes.index(a))
        else:
            pos.append(None)
    if not nodes:
        return f(*args)
    shape = tuple(len(n.values) for n in nodes)
    size = 1
    for s in shape:
        size *= s
    if size > MAX_TABLE:
        raise TooBig("table of %d entries" % size)
    table = np.empty(shape, dtype=np.int32)
    vals = []
    index = {}
    exc_rows = {}  # exception class -> (first exception, list of multi-indices)
    ok_any = False
    for idx in itertools.product(*[range(s) for s in shape]):
        call = [nodes[p].values[idx[p]] if p is not None else a for a, p in zip(args, pos)]
        try:
            r = f(*call)
        except TooBig:
            raise
        except Exception as e:  # noqa: exception of the modelled operation on this combination
            exc_rows.setdefault(type(e), (e, []))[1].append(idx)
            table[idx] = -1
            continue
        ok_any = True
        k = vkey(r)
        j = index.get(k)
        if j is None:
            j = len(vals)
            index[k] = j
            vals.append(r)
        table[idx] = j
    if exc_rows:
        excs = []
        for cls, (e, rows) in exc_rows.items():
            bt = np.zeros(shape, dtype=np.int32)
            for r in rows:
                bt[r] = 1
            excs.append((e, Node([False, True], nodes, bt)))
        ok = None
        if ok_any:
            t2 = table.copy()
            t2[t2 < 0] = 0  # placeholder; those rows are excluded by the path condition
            ok = Node(vals, nodes, t2) if len(vals) > 1 else vals[0]
        raise ApplyRaise(excs, ok)
    if len(vals) == 1:
        return vals[0]
    if len(vals) == 2 and vals[0] is True and vals[1] is False:
        vals = [False, True]
        table = 1 - table
    return Node(vals, nodes, table)


def normalize_bool(c):
    """Boolean node with values exactly [False, True] (index = truth value)"""
    if not isinstance(c, Node):
        return bool(c)
    if len(c.values) == 2 and c.values[0] is False and c.values[1] is True:
        return c
    tv = np.array([1 if v else 0 for v in c.values], dtype=np.int32)
    if tv.all():
        return True
    if not tv.any():
        return False
    return Node([False, True], [c], tv)


def ite(c, a, b):
    """c ? a : b with a vectorised table (c a Boolean node with values [False, True] or a bool)"""
    if not isinstance(c, Node):
        return a if c else b
    if not (len(c.values) == 2 and c.values[0] is False and c.values[1] is True):
        c = normalize_bool(c)
        if not isinstance(c, Node):
            return a if c else b
    if not isinstance(a, Node) and not isinstance(b, Node):
        return apply(lambda cc: a if cc else b, c)
    vals = []
    index = {}

    def idx_of(vs):
        out = np.empty(len(vs), dtype=np.int32)
        for i, v in enumerate(vs):
            k = vkey(v)
            j = index.get(k)
            if j is None:
                j = len(vals)
                index[k] = j
                vals.append(v)
            out[i] = j
        return out

    ia = idx_of(values_of(a))
    ib = idx_of(values_of(b))
    parents = [c]
    if isinstance(a, Node) and a is not c:
        parents.append(a)
    if isinstance(b, Node) and b is not c and b is not a:
        parents.append(b)
    if a is c or b is c or (a is b and isinstance(a, Node)):
        return apply(lambda cc, aa, bb: aa if cc else bb, c, a, b)
    shape = tuple(len(p.values) for p in parents)
    if np.prod(shape) > MAX_TABLE:
        raise TooBig("ite table")
    table = np.empty(shape, dtype=np.int32)
    # axis 0 = c; then a (if node), then b (if node)
    sa = ia.reshape((-1,) + (1,) * (len(shape) - 2)) if isinstance(a, Node) else ia[0]
    if isinstance(a, Node) and isinstance(b, Node):
        table[1] = ia[:, None]
        table[0] = ib[None, :]
    elif isinstance(a, Node):
        table[1] = ia
        table[0] = ib[0]
    else:
        table[1] = ia[0]
        table[0] = ib
    if len(vals) == 1:
        return vals[0]
    r = Node(vals, parents, table)
    r.ite = (c, a, b)
    return r


def relation(a, b, pairs):
    """Boolean node over (a, b) that is true exactly on the given (i, j) value-index pairs"""
    na, nb = isinstance(a, Node), isinstance(b, Node)
    if not na and not nb:
        return bool(pairs)
    shape = (len(values_of(a)), len(values_of(b)))
    t = np.zeros(shape, dtype=np.int32)
    for i, j in pairs:
        t[i, j] = 1
    if na and nb and a is not b:
        tab, parents = t, [a, b]
    elif na and nb:
        tab, parents = np.diagonal(t).copy(), [a]
    elif na:
        tab, parents = t[:, 0].copy(), [a]
    else:
        tab, parents = t[0, :].copy(), [b]
    if tab.all():
        return True
    if not tab.any():
        return False
    return Node([False, True], parents, tab)


# proven equalities between nodes (y is x up to a renumbering of values), in force only while a
# query that discovered them is being decided
ALIAS = {}


def P(n):
    a = ALIAS.get(n.id)
    return (a[0],) if a is not None else n.parents


def T(n):
    a = ALIAS.get(n.id)
    return a[1] if a is not None else n.table


def ancestors(n, acc=None):
    if acc is None:
        acc = {}
    if n.id in acc:
        return acc
    acc[n.id] = n
    for p in P(n):
        ancestors(p, acc)
    return acc


def discover_aliases(targets, constraints=(), max_pairs=400):
    """
    equalities (up to a renaming of values) between nodes of the cone: two nodes over the same
    base variables are aliases when they induce the same partition of the exact base grid.
    Every node whose base grid is small is evaluated once; the partition is hashed.
    """
    import hashlib

    cone = cone_of(targets)
    support = {}

    def sup(n):
        r = support.get(n.id)
        if r is None:
            if n.is_var:
                r = frozenset([n.id])
            else:
                r = frozenset().union(*[sup(p) for p in n.parents]) if n.parents else frozenset()
            support[n.id] = r
        return r

    classes = {}
    # base variables are representatives of their own (identity) partition
    for n in cone.values():
        if n.is_var and n.zdefs is None and len(n.values) >= 2:
            ident = np.arange(len(n.values), dtype=np.int32)
            classes[((n.id,), hashlib.md5(ident.tobytes()).hexdigest())] = (n, np.arange(len(n.values)))
    for n in sorted(cone.values(), key=lambda n: (n.depth, n.id)):
        if n.is_var or len(n.values) < 2:
            continue
        sp = sup(n)
        cut = sorted((cone[i] for i in sp if i in cone), key=lambda c: c.id)
        if len(cut) != len(sp) or any(c.zdefs is not None for c in cut):
            continue
        g = grid_size(cut)
        if g > 400_000 or g < 2:
            continue
        try:
            (arr,) = evaluate([n], cut)
        except (TooBig, KeyError):
            continue
        full = np.broadcast_to(arr, tuple(len(c.values) for c in cut)).reshape(-1)
        uniq, first, inv = np.unique(full, return_index=True, return_inverse=True)
        order = np.argsort(first)
        rank = np.empty_like(order)
        rank[order] = np.arange(len(order))
        canon = rank[inv].astype(np.int32)
        key = (tuple(c.id for c in cut), hashlib.md5(canon.tobytes()).hexdigest())
        # value index of n for each canonical block
        block_val = uniq[order]
        rep = classes.get(key)
        if rep is None:
            classes[key] = (n, block_val)
            continue
        x, xblocks = rep
        if x.id == n.id or n.id in ancestors(x):
            continue
        # n == perm(x): x's value index -> n's value index (unused x values map to 0)
        perm = np.zeros(len(x.values), dtype=np.int32)
        for bx, bn in zip(xblocks.tolist(), block_val.tolist()):
            perm[bx] = bn
        ALIAS[n.id] = (x, perm)
    # congruence: nodes with the same (representative) parents and the same table up to a
    # renaming of their own values are equal -- exact, no grid evaluation needed
    cong = {}
    for n in sorted(cone.values(), key=lambda n: (n.depth, n.id)):
        if n.is_var or n.id in ALIAS or len(n.values) < 2:
            continue
        reps = []
        tab = n.table
        ok = True
        for k, p in enumerate(n.parents):
            a = ALIAS.get(p.id)
            if a is None:
                reps.append(p.id)
            else:
                x, perm = a
                if x.id in ALIAS:
                    ok = False
                    break
                reps.append(x.id)
                tab = np.take(tab, perm, axis=k)  # index by the representative's value index
        if not ok or len(set(reps)) != len(reps) or tab.size > 3_000_000:
            continue
        flat = tab.reshape(-1)
        uniq, first, inv = np.unique(flat, return_index=True, return_inverse=True)
        order = np.argsort(first)
        rank = np.empty_like(order)
        rank[order] = np.arange(len(order))
        canon = rank[inv].astype(np.int32)
        key = (tuple(reps), tab.shape, hashlib.md5(canon.tobytes()).hexdigest())
        block_val = uniq[order]
        rep = cong.get(key)
        if rep is None:
            cong[key] = (n, block_val)
            continue
        x, xblocks = rep
        perm = np.zeros(len(x.values), dtype=np.int32)
        for bx, bn in zip(xblocks.tolist(), block_val.tolist()):
            perm[bx] = bn
        ALIAS[n.id] = (x, perm)
    return len(ALIAS)


def _old_ancestors_marker():
    pass


def frontier(targets, depth):
    """walking up from the targets, stop at the first node of depth <= `depth`"""
    cut = {}
    seen = set()

    def walk(n):
        if n.id in seen:
            return
        seen.add(n.id)
        if n.depth <= depth or n.is_var:
            cut[n.id] = n
            return
        for p in P(n):
            walk(p)

    for t in targets:
        if isinstance(t, Node):
            if t.is_var:
                cut[t.id] = t
            else:
                seen.add(t.id)
                for p in P(t):
                    walk(p)
    return list(cut.values())


def cone_of(targets):
    cone = {}
    for t in targets:
        if isinstance(t, Node):
            ancestors(t, cone)
    return cone


def grid_size(cut):
    s = 1
    for n in cut:
        s *= len(n.values)
    return s


def best_cut(targets, max_grid):
    """
    A small set of nodes through which every target factors.  Starts from the base variables
    of the targets' cone (the exact cut) and greedily *eliminates* cut members: a member p is
    replaced by its consumers in the cone when that makes the grid smaller, and a node whose
    parents are all in the cut is added when that allows dropping enough of them.
    Returns (cut list, exact flag).
    """
    targets = [t for t in targets if isinstance(t, Node)]
    cone = cone_of(targets)
    tids = {t.id for t in targets}
    children = {i: set() for i in cone}
    for n in cone.values():
        for p in P(n):
            children[p.id].add(n.id)
    C = {i for i, n in cone.items() if n.is_var}

    def prune(C):
        """drop cut members no evaluated node reads"""
        used = set()
        seen = set()
        stack = [t for t in targets]
        while stack:
            n = stack.pop()
            if n.id in seen:
                continue
            seen.add(n.id)
            if n.id in C:
                used.add(n.id)
                continue
            stack.extend(P(n))
        return used

    def size(C):
        s = 1
        for i in C:
            s *= len(cone[i].values)
        return s

    def evaluable(i, C):
        return all(p.id in C for p in P(cone[i]))

    C = prune(C)
    cur = size(C)
    improved = True
    rounds = 0
    while improved and rounds < 400:
        improved = False
        rounds += 1
        best = None
        # (a) eliminate a member by adding all of its consumers
        for p in sorted(C, key=lambda i: -len(cone[i].values)):
            cons = [c for c in children[p] if c not in C]
            if not cons or any(c in tids for c in cons):
                continue
            if not all(evaluable(c, C) for c in cons):
                continue
            C2 = prune(C | set(cons))
            if p in C2:
                continue
            s2 = size(C2)
            if s2 < cur and (best is None or s2 < best[0]):
                best = (s2, C2)
        # (b) add one node whose parents are all in the cut
        if best is None:
            for i, n in cone.items():
                if i in C or i in tids or n.is_var or not evaluable(i, C):
                    continue
                C2 = prune(C | {i})
                s2 = size(C2)
                if s2 < cur and (best is None or s2 < best[0]):
                    best = (s2, C2)
        if best is not None:
            cur, C = best
            improved = True
            if cur <= 4096:
                # small enough: further shrinking only costs precision
                pass
    cut = [cone[i] for i in C]
    exact = all(n.is_var and n.zdefs is None for n in cut)
    return cut, exact


def base_cut(targets):
    cone = cone_of(targets)
    cut = [n for n in cone.values() if n.is_var]
    return cut, all(n.zdefs is None for n in cut)


def evaluate(targets, cut):
    """index arrays (broadcastable over the cut grid) of the targets' values"""
    axes = {c.id: k for k, c in enumerate(cut)}
    nd = len(cut)
    memo = {}

    def ev(n):
        r = memo.get(n.id)
        if r is not None:
            return r
        if n.id in axes:
            shape = [1] * nd
            shape[axes[n.id]] = len(n.values)
            r = np.arange(len(n.values), dtype=np.int64).reshape(shape)
        elif n.is_var:
            raise KeyError("base variable %s is not in the cut" % n.name)
        else:
            ps = [ev(p) for p in P(n)]
            bs = np.broadcast_shapes(*[p.shape for p in ps])
            sz = 1
            for s in bs:
                sz *= s
            if sz > MAX_GRID:
                raise TooBig("grid of %d points" % sz)
            r = T(n)[tuple(ps)].astype(np.int64)
        memo[n.id] = r
        return r

    return [ev(t) for t in targets]


def truth_array(n, arr):
    """boolean array: the node's value (at index array arr) is truthy"""
    tv = np.array([bool(v) for v in n.values], dtype=bool)
    return tv[arr]


MAX_CUT_GRID = 8_000_000


def find_violations(pred, constraints, limit=50, stats=None):
    r = _find_violations(pred, constraints, limit, stats, factored=False)
    if r[0] == "toobig" and isinstance(pred, Node):
        # look for proven equalities between intermediate nodes of both sides and retry
        ALIAS.clear()
        try:
            if discover_aliases([pred] + [c for c in constraints if isinstance(c, Node)]):
                r2 = _find_violations(pred, constraints, limit, stats, factored=False)
                if r2[0] == "valid":
                    r2[1]["aliases"] = len(ALIAS)
                    return r2
                if r2[0] == "violations":
                    return r2[:5] + (False,)
        finally:
            ALIAS.clear()
        # last resort: factored evaluation of a large grid
        r = _find_violations(pred, constraints, limit, stats, factored=True)
    return r


def _find_violations(pred, constraints, limit=50, stats=None, factored=True):
    """
    Decide `constraints => pred` by explicit evaluation on a cut.
    Returns ("valid", info) | ("violations", cut, points, count, None, exact) | ("toobig", info)
    points: list of {node: value index} over the cut.  When `exact` is False a grid point need
    not be realisable and must be confirmed by the caller.
    """
    if not isinstance(pred, Node):
        if pred:
            return ("valid", {"grid": 0})
    cons = []
    for c in constraints:
        if isinstance(c, Node):
            cons.append(c)
        elif not c:
            return ("valid", {"grid": 0, "note": "constraints unsatisfiable"})
    # constraints that share no base variable (transitively) with the predicate are irrelevant
    if isinstance(pred, Node) and cons:
        def bases(n):
            return {i for i, a in ancestors(n).items() if a.is_var}

        pb = bases(pred)
        cb = [(c, bases(c)) for c in cons]
        rel = []
        changed = True
        while changed:
            changed = False
            for c, b in list(cb):
                if b & pb:
                    rel.append(c)
                    pb |= b
                    cb.remove((c, b))
                    changed = True
        cons = rel
    targets = ([pred] if isinstance(pred, Node) else []) + cons

    def run(cut):
        arrs = evaluate(targets, cut)
        if isinstance(pred, Node):
            bad = ~truth_array(pred, arrs[0])
            rest = arrs[1:]
        else:
            bad = np.array(True)
            rest = arrs
        for c, a in zip(cons, rest):
            bad = bad & truth_array(c, a)
        if stats is not None:
            stats["grids"] = stats.get("grids", 0) + 1
            stats["points"] = stats.get("points", 0) + grid_size(cut)
        return bad

    def report(bad, cut, exact):
        nd = len(cut)
        if bad.ndim < nd:
            bad = bad.reshape(bad.shape + (1,) * (nd - bad.ndim))
        pts = np.argwhere(bad)
        count = int(bad.sum())
        free = 1
        for k, c in enumerate(cut):
            if bad.shape[k] == 1:
                free *= len(c.values)
        points = [{c: int(p[k]) for k, c in enumerate(cut)} for p in pts[:limit]]
        return ("violations", cut, points, count * free, None, exact)

    bcut, bexact = base_cut(targets)
    bg = grid_size(bcut)
    if bg <= 400_000:
        # the exact cut is affordable: its verdict is definitive
        try:
            bad = run(bcut)
            if not bad.any():
                return ("valid", {"grid": bg, "exact_cut": bexact, "cut": [c.name for c in bcut]})
            return report(bad, bcut, bexact)
        except TooBig:
            pass
    # (1) shallow frontiers below the targets, cheap ones only
    maxd = max(t.depth for t in targets)
    tried = set()
    last = None
    fronts = []
    for depth in range(maxd - 1, 0, -1):
        fc = frontier(targets, depth)
        key = tuple(sorted(c.id for c in fc))
        if key in tried:
            continue
        tried.add(key)
        fronts.append(fc)
    for fc in fronts[:9]:
        g = grid_size(fc)
        if g > 300_000:
            break
        try:
            bad = run(fc)
        except (TooBig, KeyError):
            break
        if not bad.any():
            return ("valid", {"grid": g, "exact_cut": False, "cut": [c.name for c in fc]})
        last = (bad, fc, False)
    # (2) the greedily contracted base cut
    try:
        gc, gexact = best_cut(targets, MAX_CUT_GRID)
    except TooBig:
        gc, gexact = None, False
    if gc is not None and grid_size(gc) <= MAX_CUT_GRID:
        try:
            bad = run(gc)
            if not bad.any():
                return ("valid", {"grid": grid_size(gc), "exact_cut": gexact, "cut": [c.name for c in gc]})
            if gexact:
                return report(bad, gc, True)
            last = (bad, gc, False)
        except (TooBig, KeyError):
            pass
    # (3) the remaining frontiers, smallest first, within a budget
    budget = 6_000_000
    for fc in sorted(fronts[9:], key=grid_size):
        g = grid_size(fc)
        if g > 2_000_000 or g > budget:
            break
        budget -= g
        try:
            bad = run(fc)
        except (TooBig, KeyError):
            continue
        if not bad.any():
            return ("valid", {"grid": g, "exact_cut": False, "cut": [c.name for c in fc]})
    # (4) factored evaluation when the contracted cut is too large as a full product
    if factored and gc is not None and grid_size(gc) > MAX_CUT_GRID:
        r = _factored(pred, cons, gc, gexact, limit, stats)
        if r is not None:
            return r
    if last is not None and (factored or gc is None or grid_size(gc) <= MAX_CUT_GRID):
        return report(*last)
    return ("toobig", {"grid": grid_size(gc) if gc is not None else bg})


def evaluate_points(targets, cut, idx):
    """values of the targets at explicit points: idx[k] = 1-D index array of cut node k"""
    pos = {c.id: k for k, c in enumerate(cut)}
    memo = {}

    def ev(n):
        r = memo.get(n.id)
        if r is not None:
            return r
        if n.id in pos:
            r = idx[pos[n.id]]
        elif n.is_var:
            raise KeyError("base variable %s is not in the cut" % n.name)
        else:
            r = T(n)[tuple(ev(p) for p in P(n))].astype(np.int64)
        memo[n.id] = r
        return r

    return [ev(t) for t in targets]


def _factored(pred, cons, cut, exact, limit, stats):
    """
    explicit evaluation on a grid that is too large as a full product: the constraints are
    first used to filter the combinations of each connected group of cut nodes; the predicate
    is then evaluated on the product of the surviving combinations only
    """
    if not isinstance(pred, Node) or not cons:
        return None
    pos = {c.id: k for k, c in enumerate(cut)}
    parent = list(range(len(cut)))

    def find(a):
        while parent[a] != a:
            parent[a] = parent[parent[a]]
            a = parent[a]
        return a

    supports = []
    for c in cons:
        anc = ancestors(c)
        sup = sorted(pos[i] for i in anc if i in pos)
        # the constraint must factor through its own support
        supports.append(sup)
        for a in sup[1:]:
            ra, rb = find(sup[0]), find(a)
            if ra != rb:
                parent[ra] = rb
    groups = {}
    for k in range(len(cut)):
        groups.setdefault(find(k), []).append(k)
    comp_points = []
    total = 1
    for root, members in groups.items():
        sub = [cut[k] for k in members]
        gsz = grid_size(sub)
        if gsz > MAX_CUT_GRID:
            return None
        mine = [c for c, sup in zip(cons, supports) if sup and find(sup[0]) == root]
        ok = np.ones(tuple(len(n.values) for n in sub), dtype=bool)
        if mine:
            try:
                arrs = evaluate(mine, sub)
            except (TooBig, KeyError):
                return None
            for c, a in zip(mine, arrs):
                ok = ok & truth_array(c, a)
        pts = np.argwhere(ok)
        if len(pts) == 0:
            return ("valid", {"grid": 0, "note": "constraints unsatisfiable"})
        comp_points.append((members, pts))
        total *= len(pts)
        if total > 5 * MAX_CUT_GRID:
            return None
    # cartesian product of the groups' feasible points, evaluated in chunks
    comp_points.sort(key=lambda t: -len(t[1]))
    CH = 1_500_000
    big_members, big_pts = comp_points[0]
    rest = comp_points[1:]
    rest_total = total // len(big_pts)
    step = max(1, CH // max(rest_total, 1))
    nbad = 0
    points = []
    for lo in range(0, len(big_pts), step):
        chunk = [(big_members, big_pts[lo:lo + step])] + rest
        ctot = 1
        for _, pts in chunk:
            ctot *= len(pts)
        idx = [None] * len(cut)
        rep = 1
        for members, pts in chunk:
            n = len(pts)
            tile = ctot // (rep * n)
            base = np.tile(np.repeat(np.arange(n), rep), tile)
            for col, k in enumerate(members):
                idx[k] = pts[base, col]
            rep *= n
        try:
            (pa,) = evaluate_points([pred], cut, idx)
        except (TooBig, KeyError, MemoryError):
            return None
        bad = ~truth_array(pred, pa)
        if bad.any():
            where = np.nonzero(bad)[0]
            nbad += int(bad.sum())
            for w in where[: max(0, limit - len(points))]:
                points.append({c: int(idx[k][w]) for k, c in enumerate(cut)})
    if stats is not None:
        stats["grids"] = stats.get("grids", 0) + 1
        stats["points"] = stats.get("points", 0) + total
    if not nbad:
        return ("valid", {"grid": total, "exact_cut": exact, "factored": True, "cut": [c.name for c in cut]})
    return ("violations", cut, points, nbad, None, exact)


def realize(point, pred, constraints, tries=64):
    """
    turn a violating grid point of a (possibly inexact) cut into an assignment of the base
    variables on which the predicate is false and every constraint true -- checked by exact
    evaluation at that single base point.  Returns {base var: value index} or None.
    """
    cons = [c for c in constraints if isinstance(c, Node)]
    targets = [pred] + cons
    base, exact = base_cut(targets)
    if not exact:
        return None
    bpos = {b.id: k for k, b in enumerate(base)}
    # group the cut nodes by overlapping base supports
    items = []
    for c, i in point.items():
        sup = sorted(bpos[a] for a, n in ancestors(c).items() if n.is_var and a in bpos)
        items.append((c, i, sup))
    parent = {}

    def find(a):
        parent.setdefault(a, a)
        while parent[a] != a:
            parent[a] = parent[parent[a]]
            a = parent[a]
        return a

    for c, i, sup in items:
        for a in sup[1:]:
            parent[find(sup[0])] = find(a)
    groups = {}
    for c, i, sup in items:
        if not sup:
            continue
        groups.setdefault(find(sup[0]), []).append((c, i, sup))
    choices = []  # per group: (base positions, array of candidate assignments)
    for root, members in groups.items():
        positions = sorted(set(a for _, _, sup in members for a in sup))
        sub = [base[k] for k in positions]
        if grid_size(sub) > 2_000_000:
            return None
        try:
            arrs = evaluate([c for c, _, _ in members], sub)
        except (TooBig, KeyError):
            return None
        ok = np.ones(tuple(len(n.values) for n in sub), dtype=bool)
        for (c, i, _), a in zip(members, arrs):
            ok = ok & (a == i)
        pts = np.argwhere(ok)
        if len(pts) == 0:
            return None  # the grid point is not realisable
        choices.append((positions, pts))
    rng = np.random.default_rng(0)
    for t in range(tries):
        idx = [np.array([0], dtype=np.int64) for _ in base]
        if t > 0:
            for k in range(len(base)):
                idx[k] = np.array([rng.integers(len(base[k].values))], dtype=np.int64)
        for positions, pts in choices:
            row = pts[0] if t == 0 else pts[rng.integers(len(pts))]
            for col, k in enumerate(positions):
                idx[k] = np.array([int(row[col])], dtype=np.int64)
        try:
            vals = evaluate_points(targets, base, idx)
        except (KeyError, TooBig):
            return None
        if truth_array(pred, vals[0])[0]:
            continue
        if all(truth_array(c, v)[0] for c, v in zip(cons, vals[1:])):
            return {b: int(idx[k][0]) for k, b in enumerate(base)}
    return None


def reset():
    GUARD_REG.clear()
    ALL_NODES.clear()


def possible_indices(node, constraints):
    """
    over-approximation of the value indices `node` can take when all constraints are true:
    the intersection of the sets obtained on several cuts (every cut yields a superset)
    """
    cons = [c for c in constraints if isinstance(c, Node)]
    if any((not isinstance(c, Node)) and (not c) for c in constraints):
        return []
    targets = [node] + cons
    possible = set(range(len(node.values)))

    def on_cut(cut):
        arrs = evaluate(targets, cut)
        ok = np.array(True)
        for c, a in zip(cons, arrs[1:]):
            ok = ok & truth_array(c, a)
        shape = np.broadcast_shapes(arrs[0].shape, ok.shape)
        idx = np.broadcast_to(arrs[0], shape)[np.broadcast_to(ok, shape)]
        return set(int(i) for i in np.unique(idx))

    maxd = max(t.depth for t in targets)
    tried = set()
    for depth in range(maxd, max(0, maxd - 6), -1):
        cut = frontier_keep(targets, depth)
        key = tuple(sorted(c.id for c in cut))
        if key in tried or grid_size(cut) > 300_000:
            continue
        tried.add(key)
        try:
            possible &= on_cut(cut)
        except (TooBig, KeyError):
            continue
        if len(possible) <= 1:
            return sorted(possible)
    cut, exact = base_cut(targets)
    if grid_size(cut) <= 300_000:
        try:
            possible &= on_cut(cut)
        except (TooBig, KeyError):
            pass
    return sorted(possible)


def frontier_keep(targets, depth):
    """like frontier(), but the first target is expanded once and constraint nodes may be cut members"""
    cut = {}
    seen = set()

    def walk(n):
        if n.id in seen:
            return
        seen.add(n.id)
        if n.depth <= depth or n.is_var:
            cut[n.id] = n
            return
        for p in n.parents:
            walk(p)

    first = targets[0]
    if first.is_var:
        cut[first.id] = first
    else:
        seen.add(first.id)
        for p in first.parents:
            walk(p)
    for t in targets[1:]:
        walk(t)
    return list(cut.values())
