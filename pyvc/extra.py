"""
pyvc.extra -- state of an object that the contracts' representation invariant does not mention.

The contracts of the accessors assume `WF(self)`: the fields the invariant speaks about hold their
specification values.  A change to the library may add *further* fields (a memo of a result, a
pre-computed tuple, a flag).  What such a field holds is not assumed and not guessed: it is derived
from the code.

  derive      the real `__init__` of the current tree is executed symbolically on the same
              symbolic view up to the point of construction the contract's pre-state stands for;
              callees are seen through their contracts, except callees that (transitively) store
              into such a field -- those are executed *and then* their contract's effect is
              applied, so the fields the invariant covers keep their specification values and the
              further fields hold exactly what the code computes.  The further fields found are
              copied onto the assumed object.
  closure     accessors may write further fields (a memo).  A contract of an accessor must then
              hold in every state any finite sequence of accessor calls can leave behind.  The
              reachable states of the further fields are explored from the post-constructor state
              by applying the writing accessors (real code, every argument variant) until no new
              state appears; the unit is verified from each state found.  If the exploration does
              not close within DEPTH calls the unit is *undecided* (never proved, never refuted).

On a tree without further fields (the unchanged tree) none of this runs: `attach` returns at once.
"""
from __future__ import annotations

import ast

import z3

from .interp import PathCut, PyFunc, PyRaise, Unsupported
from .sym import FV, SBool, SInt, SMap, SObj, SStr

DEPTH = 4

# the fields the representation invariants speak about (contracts/cvss{2,3,4}.py: V2/V3/V4.obj)
KNOWN_FIELDS = {
    "CVSS2": frozenset(["vector", "metrics", "base_score", "temporal_score", "environmental_score"]),
    "CVSS3": frozenset(["vector", "minor_version", "metrics", "original_metrics", "missing_metrics", "scope", "modified_scope",
                        "base_score", "temporal_score", "environmental_score", "isc_base", "isc", "esc",
                        "modified_isc_base", "modified_isc", "modified_esc"]),
    "CVSS4": frozenset(["vector", "metrics", "original_metrics", "missing_metrics", "base_score", "severity"]),
}


def is_further_field(obj, attr):
    """an attribute of a CVSS object that no representation invariant mentions"""
    known = KNOWN_FIELDS.get(getattr(getattr(obj, "cls", None), "name", None))
    return known is not None and attr not in known


class _Stop(Exception):
    pass


def scan(cls):
    """per method: attributes of the receiver stored / mutated in place, and methods called on it"""
    stores, touches, calls, reads = {}, {}, {}, {}
    for name, f in cls.methods.items():
        if not isinstance(f, PyFunc) or not f.node.args.args:
            continue
        if f.kind == "staticmethod":
            continue
        me = f.node.args.args[0].arg
        ws, ts, cs, rs = set(), set(), set(), set()

        def is_me(n):
            return isinstance(n, ast.Name) and n.id == me

        for n in ast.walk(f.node):
            if isinstance(n, ast.Attribute) and is_me(n.value):
                rs.add(n.attr)
                if isinstance(n.ctx, (ast.Store, ast.Del)):
                    ws.add(n.attr)
                if n.attr == "__dict__":
                    ws.add("*")
            elif isinstance(n, ast.Subscript) and isinstance(n.ctx, (ast.Store, ast.Del)):
                b = n.value
                if isinstance(b, ast.Attribute) and is_me(b.value):
                    ts.add(b.attr)
            elif isinstance(n, ast.Call):
                fn = n.func
                if isinstance(fn, ast.Name) and fn.id in ("setattr", "delattr") and n.args and is_me(n.args[0]):
                    ws.add("*")
                if isinstance(fn, ast.Attribute):
                    if is_me(fn.value):
                        cs.add(fn.attr)
                    elif isinstance(fn.value, ast.Attribute) and is_me(fn.value.value):
                        # self.X.method(...): may mutate the value of X in place
                        ts.add(fn.value.attr)
            elif isinstance(n, ast.AugAssign):
                t = n.target
                if isinstance(t, ast.Attribute) and is_me(t.value):
                    ws.add(t.attr)
        stores[name], touches[name], calls[name], reads[name] = ws, ts, cs, rs
    return stores, touches, calls, reads


def _closure(direct, calls):
    trans = set(direct)
    changed = True
    while changed:
        changed = False
        for m in calls:
            if m not in trans and calls[m] & trans:
                trans.add(m)
                changed = True
    return trans


def analyse(cls, known):
    """(further fields, methods that store into them, methods that mention them -- transitively,
    call graph on self, per-method mentions)"""
    stores, touches, calls, reads = scan(cls)
    allw = set()
    for ws in stores.values():
        allw |= ws
    extras = allw - set(known)
    direct = {m for m in stores if (stores[m] | touches[m]) & extras}
    mention = {m for m in reads if reads[m] & extras}
    return extras, direct, _closure(direct | mention, calls), calls, reads


def immutable(v, depth=0):
    """the value cannot change without the field being assigned"""
    from . import strings as S
    from .sym import DI

    if v is None or isinstance(v, (bool, int, float, str, DI, FV, SStr, SBool, SInt)):
        return True
    if isinstance(v, tuple) and depth < 5:
        return all(immutable(x, depth + 1) for x in v)
    from .models import GTuple

    if isinstance(v, GTuple) and depth < 5:
        return all(immutable(x, depth + 1) for _, x in v.items)
    return False


def constant_stores(f, extras):
    """
    {field: value} when the only thing function f does with the further fields is to assign
    literal constants to them in unconditional top-level statements of its body, and f has no
    `return` (so every normally terminating run executes each of these statements, in order);
    None otherwise.  Used for parse_vector, whose loop is not executed by the derivation.
    """
    me = f.node.args.args[0].arg
    for n in ast.walk(f.node):
        if isinstance(n, ast.Return):
            return None
    out = {}
    for stmt in f.node.body:
        mentioned = [n for n in ast.walk(stmt)
                     if isinstance(n, ast.Attribute) and isinstance(n.value, ast.Name) and n.value.id == me and n.attr in extras]
        if not mentioned:
            continue
        if not (isinstance(stmt, ast.Assign) and len(stmt.targets) == 1 and mentioned == [stmt.targets[0]]
                and isinstance(stmt.targets[0].ctx, ast.Store)):
            return None
        try:
            out[stmt.targets[0].attr] = ast.literal_eval(stmt.value)
        except Exception:  # noqa
            return None
        if not immutable(out[stmt.targets[0].attr]):
            return None
    return out


def sig(v, depth=0):
    """structural key of a symbolic value (equal keys => equal values; unequal keys say nothing)"""
    if depth > 6:
        return ("deep", id(v))
    if v is None or isinstance(v, (bool, int, str, float)):
        return (type(v).__name__, v)
    if isinstance(v, (list, tuple)):
        return (type(v).__name__,) + tuple(sig(x, depth + 1) for x in v)
    if isinstance(v, dict):
        return ("dict",) + tuple((sig(k, depth + 1), sig(x, depth + 1)) for k, x in v.items())
    from . import strings as S

    if isinstance(v, S.SCat):
        out = []
        for p in v.parts:
            if isinstance(p, S.JoinPiece):
                out.append(("join", sig(p.sep, depth + 1),
                            tuple((_zkey(g), sig(e, depth + 1)) for g, e in p.items)))
            else:
                out.append(sig(p, depth + 1))
        return ("scat",) + tuple(out)
    if isinstance(v, FV):
        node = getattr(v, "node", None)
        if node is not None:
            return ("fv", getattr(node, "id", id(node)))
        return ("fv?", id(v))
    if isinstance(v, (SStr, SBool, SInt)):
        return (type(v).__name__, _zkey(v.z))
    if isinstance(v, SMap):
        return ("smap", _zkey(v.dom), _zkey(v.val))
    from .interp import GList
    from .models import OneShot

    if isinstance(v, GList):
        return ("glist",) + tuple((_zkey(g), sig(x, depth + 1)) for g, x in v.items)

    if isinstance(v, OneShot):
        return ("oneshot", sig(v.items, depth + 1))
    if z3.is_expr(v):
        return ("z3", _zkey(v))
    return ("obj", id(v))


_KEEP = []


def _zkey(t):
    if isinstance(t, bool):
        return ("b", t)
    if z3.is_expr(t):
        t = z3.simplify(t)
        _KEEP.append(t)  # ids are recycled once a term is collected
        return ("z", t.get_id())
    return ("?", id(t))


def state_sig(o):
    return tuple((a, sig(o.fields[a]) if a in o.fields else ("unset",)) for a in sorted(o.extra_fields))


def attach(ctx, o, view_attr, view, known, stop_after, parsed_fields, accessors=(), closure=False):
    """
    o            the assumed object (fields the invariant covers hold their specification values)
    known        every field name the invariant covers (at any phase)
    stop_after   name of the method after whose return, in __init__, the pre-state is reached
                 (None: the end of __init__)
    parsed_fields()  fields established by parse_vector (+ check_mandatory) on this view
    accessors    [(method name, [argument variants (args, kwargs)])] -- the public accessors
    closure      explore the states accessor calls can leave behind (objects after construction)
    """
    eng, st = ctx.engine, ctx.st
    cls = o.cls
    extras, direct, trans, calls, reads = analyse(cls, known)
    o.extra_fields = set()
    if not extras:
        return
    if "*" in extras:
        raise Unsupported("setattr / __dict__ manipulation of self: the object's state cannot be enumerated")
    init = cls.methods.get("__init__")
    if not isinstance(init, PyFunc):
        raise Unsupported("no __init__ to derive the fields %s from" % sorted(extras))
    from .contract import REGISTRY

    inner = eng.hooks.get("on_call")
    mode = {"harvest": False, "hit": False, "target": None}

    def on_call(eng_, st_, f, args, kwargs):
        own = f.cls is cls and args and isinstance(args[0], SObj) and args[0].cls is cls
        if not own or f.module is None:
            return inner(eng_, st_, f, args, kwargs) if inner else (False, None)
        name = f.name
        recv = args[0]
        if recv is not mode["target"] and not getattr(recv, "assumed_state", False):
            # an object under construction (e.g. the re-parse lemmas build a second object with the
            # real constructor): none of this section's business
            return inner(eng_, st_, f, args, kwargs) if inner else (False, None)
        if mode["harvest"] and recv is mode["target"] and len(eng_.call_stack) == 1:
            try:
                if name == "parse_vector":
                    consts = {}
                    if name in trans:
                        consts = constant_stores(f, extras)
                        if consts is None:
                            raise Unsupported("parse_vector uses the further fields %s in a way the derivation does not follow" % sorted(extras))
                    for k, val in parsed_fields().items():
                        recv.fields[k] = val
                    for k, val in consts.items():
                        recv.fields[k] = val
                    return True, None
                if name == "check_mandatory" and name not in trans:
                    return True, None
                return _dispatch(eng_, st_, f, args, kwargs, name)
            finally:
                if name == stop_after:
                    mode["hit"] = True
                    raise _Stop()
        if len(eng_.call_stack) == 0 and not mode["harvest"] and not mode.get("history"):
            # the function under verification itself
            return inner(eng_, st_, f, args, kwargs) if inner else (False, None)
        return _dispatch(eng_, st_, f, args, kwargs, name)

    def _dispatch(eng_, st_, f, args, kwargs, name):
        c = REGISTRY.get((f.module.name, f.qualname))
        if name in trans and c is not None:
            # executes the code (for the further fields), then the contract's effect (for the rest)
            value = eng_.run_body(f, args, kwargs, st_)
            r = c.effect(eng_, st_, args, kwargs)
            return True, (value if r is NotImplemented else r)
        if c is None:
            return False, None
        r = c.effect(eng_, st_, args, kwargs)
        if r is NotImplemented:
            return False, None
        return True, r

    eng.hooks["on_call"] = on_call

    # -- derive the further fields from the constructor -------------------------------------------
    h = SObj(cls)
    h.written = set()
    setattr(h, view_attr, view)
    mark = (len(st.obligations), len(st.events), len(st.stdout))
    mode["harvest"], mode["target"] = True, h
    try:
        try:
            eng.run_body(init, [h, o.fields["vector"]], {}, st)
        except _Stop:
            pass
        except PyRaise as e:
            raise Unsupported("the constructor raises %s while the fields %s are derived" % (
                e.exc_cls.__name__, sorted(extras)))
    finally:
        mode["harvest"], mode["target"] = False, None
        del st.obligations[mark[0]:]
        del st.events[mark[1]:]
        del st.stdout[mark[2]:]
    if stop_after is not None and not mode["hit"]:
        raise Unsupported("__init__ no longer calls %s: the pre-state of this contract cannot be located" % stop_after)
    for a, val in h.fields.items():
        if a in extras:
            o.fields[a] = _rebind(val, h, o)
    o.extra_fields = set(extras)
    ctx.data["extra_fields"] = sorted(extras)

    # -- states accessor calls can leave behind ---------------------------------------------------
    if not closure:
        return
    acc_names = {n for n, _ in accessors}
    for m in direct:
        if m not in acc_names and m != "__init__" and not _only_from_init(m, calls):
            raise Unsupported("%s writes %s but is not an accessor the state exploration knows" % (m, sorted(extras)))

    def letters_for(mut):
        """accessor calls that may change the further fields in the current state: accessors that
        store into such a field, or that mention one currently holding a mutable value (a one-shot
        iterator is consumed, a list or dict changed in place, without any store)"""
        d = set(direct) | {m for m in reads if reads[m] & mut}
        t = _closure(d, calls)
        out = []
        for n, variants in accessors:
            if n not in t:
                continue
            if n not in d and all((cal not in t) or (cal in acc_names) for cal in calls.get(n, ())):
                continue  # its effect on the further fields is that of the accessors it calls
            f = cls.methods.get(n)
            if isinstance(f, PyFunc):
                for va in variants:
                    out.append((f, va))
        return out

    seen = eng.__dict__.setdefault("extra_seen", {})
    hist = []
    for depth in range(DEPTH + 2):
        s = state_sig(o)
        key = tuple(hist)
        old = seen.get(s)
        if old is not None and old != key:
            if len(old) <= len(key):
                raise PathCut("state of the further fields already explored")
        elif old is None and depth == DEPTH + 1:
            raise Unsupported("states of the fields %s do not close within %d accessor calls" % (sorted(extras), DEPTH))
        seen[s] = key
        if depth == DEPTH + 1:
            raise PathCut("depth bound of the state exploration")
        letters = letters_for({a for a in extras if a in o.fields and not immutable(o.fields[a])})
        if not letters:
            break
        k = st.choose(len(letters) + 1, "accessor call before this one")
        if k == 0:
            break
        f, (a_, kw_) = letters[k - 1]
        mark = (len(st.obligations), len(st.events), len(st.stdout))
        mode["history"] = True
        try:
            try:
                eng.call_function(f, [o] + list(a_), dict(kw_), st)
            except PyRaise:
                raise PathCut("an earlier accessor call raises (reported by that accessor's own unit)")
        finally:
            mode["history"] = False
            del st.obligations[mark[0]:]
            del st.events[mark[1]:]
            del st.stdout[mark[2]:]
        hist.append("%s(%s)" % (f.name, ", ".join([repr(x) for x in a_] + ["%s=%r" % kv for kv in sorted(kw_.items())])))
    ctx.data["history"] = list(hist)
    if hist:
        st.notes.append("after " + "; ".join(hist))


def _only_from_init(m, calls):
    """m is reachable only from __init__ (a construction helper, not an accessor)"""
    callers = {c for c, cs in calls.items() if m in cs}
    if not callers:
        return False
    todo, seen_ = list(callers), set()
    while todo:
        c = todo.pop()
        if c in seen_:
            continue
        seen_.add(c)
        if c == "__init__":
            continue
        cc = {x for x, cs in calls.items() if c in cs}
        if not cc:
            return False
        todo.extend(cc)
    return True


def _rebind(val, h, o):
    return val
