"""
pyvc.driver -- runs the obligations of one property, decides the verdict, writes evidence.

Exit status: 0 held (or only listed known findings); 1 violation (VIOLATION line printed);
2 undecided without a failing input and without a passing bounded stand-in; 3 checker error.
"""
from __future__ import annotations

import fnmatch
import hashlib
import json
import multiprocessing as mp
import os
import signal
import subprocess
import sys
import time
import traceback

VERIF = os.path.dirname(os.path.dirname(os.path.abspath(__file__)))
NATIVE_PY = os.environ.get("CVSS_NATIVE_PYTHON", "/venv/bin/python")

TRUSTED = {
    "A0": "A0 Python 3 semantics of the supported subset as implemented by pyvc.interp/pyvc.models; `self` is an exact instance; no monkey-patching; objects are mutated only by their own methods",
    "A1": "A1 assumed contracts of str methods on abstract strings (pyvc.strings: split/startswith/endswith/split(c,1)); ground instances evaluated by host CPython",
    "A2": "A2 decimal: a result representable in 28 digits is exact under every context with prec>=28; otherwise relative error <= 1e-27 for + - * / ** (any rounding mode); quantize with explicit rounding is exact",
    "A3": "A3 IEEE-754 binary64 float arithmetic of the host CPython equals that of the deployment interpreter (leaf values are computed by host float operations)",
    "A4": "A4 re.findall contract (leftmost, non-overlapping, greedy = longest for a pattern of greedy repetitions) and the translation of the parser's pattern and flags to a z3 regular expression (character sets of classes/categories under flags are taken from CPython's engine over all code points)",
    "A5": "A5 argparse/json/print/input contracts for the stated command-line domain",
    "A6": "A6 JSON-Schema keyword semantics over decimal literals (multipleOf exact)",
    "A7": "A7 the specification tables under /verif/spec are the official FIRST data",
    "FD": "finite-domain evaluation (pyvc.fd): numpy evaluation of table DAGs over a cut; sound by construction (a cut through which all targets factor), counter-examples confirmed by z3",
}


_VERIF_KEY = None
_FILE_SHA = {}
_DEPS = {}


def verif_key():
    """content hash of the verifier itself (engine, contracts, specification, lemmas)"""
    global _VERIF_KEY
    if _VERIF_KEY is None:
        h = hashlib.sha256()
        files = []
        for sub in ("pyvc", "contracts", "spec", "lemmas"):
            for dp, dn, fn in os.walk(os.path.join(VERIF, sub)):
                for f in sorted(fn):
                    if f.endswith((".py", ".json")) and f not in ("selftest.py", "__main__.py"):  # they decide no unit
                        files.append(os.path.join(dp, f))
        for f in sorted(files):
            h.update(os.path.relpath(f, VERIF).encode())
            with open(f, "rb") as fh:
                h.update(fh.read())
        _VERIF_KEY = h.hexdigest()
    return _VERIF_KEY


def repo_modules():
    from pyvc.source import sources

    d = os.path.join(sources().repo, "cvss")
    return sorted(f[:-3] for f in os.listdir(d) if f.endswith(".py"))


def repo_deps(module):
    """the repository modules a function of `module` can depend on: the import closure read off
    the current ASTs (a package-level import pulls in every module)"""
    import ast

    from pyvc.source import sources

    if module in _DEPS:
        return _DEPS[module]
    src = sources()
    allm = repo_modules()
    seen, todo = set(), [module]
    while todo:
        m = todo.pop()
        if m in seen:
            continue
        if m == "__init__" or m not in allm:
            seen.update(allm)
            break
        seen.add(m)
        try:
            with open(src.path(m), "rb") as f:
                tree = ast.parse(f.read())
        except (OSError, SyntaxError):
            seen.update(allm)
            break
        for node in ast.walk(tree):
            if isinstance(node, ast.ImportFrom):
                if node.level >= 1:
                    if node.module:
                        todo.append(node.module.split(".")[0])
                    else:
                        todo.extend(a.name for a in node.names)
                elif node.module and node.module.split(".")[0] == "cvss":
                    parts = node.module.split(".")
                    todo.append(parts[1] if len(parts) > 1 else "__init__")
            elif isinstance(node, ast.Import):
                for a in node.names:
                    parts = a.name.split(".")
                    if parts[0] == "cvss":
                        todo.append(parts[1] if len(parts) > 1 else "__init__")
    _DEPS[module] = sorted(seen)
    return _DEPS[module]


def file_sha(path):
    if path not in _FILE_SHA:
        try:
            with open(path, "rb") as f:
                _FILE_SHA[path] = hashlib.sha256(f.read()).hexdigest()
        except OSError:
            _FILE_SHA[path] = "missing"
    return _FILE_SHA[path]


def unit_key(job):
    """content hash of everything the verdict of one unit depends on: the verifier and the
    repository modules in the import closure of the function's module (all modules for lemmas)"""
    from pyvc.source import sources

    kind, modname, key = job[0], job[1], job[2]
    if kind == "contract":
        mods = repo_deps(key[0])
    else:
        mods = repo_modules()
    src = sources()
    h = hashlib.sha256(verif_key().encode())
    for m in mods:
        h.update(m.encode())
        h.update(file_sha(src.path(m)).encode())
    return h.hexdigest()


def tree_key():
    return unit_key(("lemma", "", ""))


CACHE_DIR = os.path.join(VERIF, ".cache", "units")


def cache_path(job):
    mode = "second-opinion" if os.environ.get("PYVC_SECOND_OPINION") == "1" else ""
    k = hashlib.sha256((unit_key(job) + mode + json.dumps(job[:4], sort_keys=True, default=str)).encode()).hexdigest()
    return os.path.join(CACHE_DIR, k[:2], k + ".json")


def _alarm(signum, frame):
    raise TimeoutError("unit wall-clock limit")


def run_unit(job):
    """worker: verify one (contract, case) unit or one lemma; returns a JSON-able dict"""
    kind, modname, key, case, limit = job
    t0 = time.time()
    use_cache = os.environ.get("PYVC_NO_CACHE") != "1"
    cp = cache_path(job) if use_cache else None
    if cp and os.path.exists(cp):
        try:
            with open(cp) as f:
                out = json.load(f)
            out["cached"] = True
            out["wall"] = time.time() - t0
            return out
        except Exception:  # noqa
            pass
    try:
        import resource

        try:
            resource.setrlimit(resource.RLIMIT_AS, (10 * 2 ** 30, 10 * 2 ** 30))
        except Exception:  # noqa
            pass
        signal.signal(signal.SIGALRM, _alarm)
        signal.alarm(int(limit) + 30)
        import importlib

        mod = importlib.import_module(modname)
        if kind == "contract":
            from pyvc.contract import REGISTRY, verify

            c = REGISTRY[tuple(key)]
            res = verify(c, case, max_seconds=limit)
            out = res.to_json()
        else:
            from pyvc.contract import run_lemma

            fn = getattr(mod, key)
            out = run_lemma(key, fn, case).to_json()
        signal.alarm(0)
        out["wall"] = time.time() - t0
        if cp and not out.get("crash") and not any("time budget" in u[0] or "checker error" in u[0] for u in out.get("undecided", [])):
            try:
                os.makedirs(os.path.dirname(cp), exist_ok=True)
                tmp = cp + ".%d.tmp" % os.getpid()
                with open(tmp, "w") as f:
                    json.dump(out, f, default=str)
                os.replace(tmp, cp)
            except Exception:  # noqa
                pass
        return out
    except BaseException as e:  # noqa
        signal.alarm(0)
        return {
            "unit": "%s:%s%s" % (modname, key, case or ""),
            "paths": 0,
            "obligations": [],
            "undecided": [["checker error: %r" % (e,), []]],
            "seconds": time.time() - t0,
            "solver_checks": 0,
            "solver_seconds": 0,
            "crash": traceback.format_exc()[-2000:],
            "wall": time.time() - t0,
        }


def native(jobs, stop_at_first=False, repo=None, timeout=600):
    env = dict(os.environ)
    env["CVSS_REPO"] = repo or os.environ.get("CVSS_REPO", "/repo")
    env.pop("PYTHONPATH", None)
    env.setdefault("PYTHONHASHSEED", "0")
    p = subprocess.run(
        [NATIVE_PY, os.path.join(VERIF, "native", "run.py")],
        input=json.dumps({"jobs": jobs, "stop_at_first": stop_at_first}),
        capture_output=True,
        text=True,
        env=env,
        timeout=timeout,
    )
    if p.returncode != 0:
        raise RuntimeError("native runner failed: %s" % p.stderr[-2000:])
    return json.loads(p.stdout)["results"]


def native_parallel(jobs, procs):
    """the same native run split over worker processes (results in job order)"""
    import concurrent.futures as cf

    n = max(1, min(procs, len(jobs) // 500))
    chunks = [jobs[i::n] for i in range(n)]
    with cf.ThreadPoolExecutor(n) as ex:
        parts = list(ex.map(lambda c: native(c, stop_at_first=True, timeout=3000), chunks))
    out = [None] * len(jobs)
    for i, part in enumerate(parts):
        for k, r in enumerate(part):
            out[i + k * n] = r
    return [r if r is not None else {"ok": True, "detail": "not run (an earlier input of the chunk failed)", "error": None} for r in out]


def load_known():
    try:
        with open(os.path.join(VERIF, "known_findings.json")) as f:
            return json.load(f).get("findings", [])
    except OSError:
        return []


def with_known(prop_id, jobs):
    """native jobs are told which listed findings to step around (the oracle then checks the
    neighbouring statement instead, e.g. the same schema fragment with the severity upper-cased),
    so that a listed finding is never re-reported as a new violation and never masks another one"""
    flags = [k["native_flag"] for k in load_known() if k.get("property") == prop_id and k.get("native_flag")]
    if not flags:
        return jobs
    out = []
    for j in jobs:
        j = dict(j)
        j["input"] = dict(j["input"], known=flags)
        out.append(j)
    return out


class Property(object):
    """what the driver needs to know about a property (see properties_map.py)"""

    id = None
    units = ()  # list of jobs (kind, module, key, case, limit)
    trusted = ("A0",)
    assumptions = ()
    technique = ""

    def jobs(self, tier):
        raise NotImplementedError

    def concretize(self, obligation):
        """counter-model -> list of native jobs [{"check":..., "input":...}] (most likely first)"""
        return []

    def widen(self, obligation, tier):
        """further native jobs around a counter-model whose first candidates did not reproduce"""
        return []

    def bounded(self, tier, seed):
        """bounded stand-in: native jobs with a stated bound (used only for undecided parts)"""
        return [], "none"


def sha(path):
    try:
        with open(path, "rb") as f:
            return hashlib.sha256(f.read()).hexdigest()
    except OSError:
        return None


def check(prop, tier="quick", seed=0, procs=None, verbose=False):
    t0 = time.time()
    procs = procs or min(16, os.cpu_count() or 4)
    jobs = prop.jobs(tier)
    results = []
    if procs > 1 and len(jobs) > 1:
        ctx = mp.get_context("fork")
        with ctx.Pool(min(procs, len(jobs)), maxtasksperchild=8) as pool:
            for r in pool.imap_unordered(run_unit, jobs, chunksize=1):
                results.append(r)
                if verbose:
                    print("  unit %-70s paths=%-4s obl=%-4s %.1fs %s" % (
                        r["unit"], r["paths"], len(r["obligations"]), r.get("wall", 0),
                        "UNDECIDED" if r["undecided"] else ""), flush=True)
    else:
        for j in jobs:
            r = run_unit(j)
            results.append(r)
            if verbose:
                print("  unit %-70s paths=%-4s obl=%-4s %.1fs %s" % (
                    r["unit"], r["paths"], len(r["obligations"]), r.get("wall", 0),
                    "UNDECIDED" if r["undecided"] else ""), flush=True)
    results.sort(key=lambda r: r["unit"])

    obligations = []
    undecided = []
    crashes = []
    excluded = 0
    for r in results:
        for o in r["obligations"]:
            o["unit"] = r["unit"]
            if any(fnmatch.fnmatch(o["name"], pat) for pat in getattr(prop, "exclude", ())):
                excluded += 1
                continue
            obligations.append(o)
        for u in r["undecided"]:
            undecided.append({"unit": r["unit"], "reason": u[0]})
        if r.get("crash"):
            crashes.append({"unit": r["unit"], "trace": r["crash"]})
    discharged = [o for o in obligations if o["status"] == "discharged"]
    refuted = [o for o in obligations if o["status"] == "refuted"]
    unknown = [o for o in obligations if o["status"] == "unknown"]
    for o in unknown:
        undecided.append({"unit": o["unit"], "reason": "solver unknown on %s" % o["name"]})

    known = load_known()
    lines = []
    violations = []
    known_hits = []
    os.makedirs(os.path.join(VERIF, "replays", prop.id), exist_ok=True)

    def is_known(o):
        for k in known:
            if k.get("property") == prop.id and fnmatch.fnmatch(o["name"], k.get("obligation", "")):
                return k
        return None

    seen_names = set()
    native_memo = {}
    for o in refuted:
        if o["name"] in seen_names:
            continue
        seen_names.add(o["name"])
        k = is_known(o)
        if k is not None:
            known_hits.append((k, o))
            continue
        # replay: concretise the counter-model and run it against the real code
        cand = prop.concretize(o)
        failing = None
        tried = 0
        errors = []
        for stage in ("model", "widened"):
            if stage == "widened":
                cand = prop.widen(o, tier)
            if not cand:
                continue
            try:
                cand = with_known(prop.id, cand)
                # several refuted obligations often share one candidate list (e.g. the widened
                # neighbourhood): the native run is done once per distinct list
                ck = hashlib.sha256(json.dumps(cand, sort_keys=True, default=str).encode()).hexdigest()
                if ck not in native_memo:
                    native_memo[ck] = native(cand, stop_at_first=True)
                res = native_memo[ck]
            except Exception as e:  # noqa
                errors.append(repr(e))
                continue
            tried += len(res)
            for job, rr in zip(cand, res):
                if not rr["ok"]:
                    failing = {"job": job, "result": rr}
                    break
            if failing:
                break
        safe = "".join(ch if ch.isalnum() or ch in "._-" else "_" for ch in o["name"])[:150]
        path = os.path.join(VERIF, "replays", prop.id, safe + ".json")
        with open(path, "w") as f:
            json.dump(
                {
                    "property": prop.id,
                    "obligation": o["name"],
                    "unit": o["unit"],
                    "detail": o.get("detail"),
                    "verifier_status": "refuted",
                    "counter_model": o.get("model"),
                    "failing_input": failing,
                    "native_inputs_tried": tried,
                    "native_errors": errors,
                    "replay": "python3-vt -m pyvc replay %s" % path,
                },
                f,
                indent=1,
                default=str,
            )
        tail = "" if failing else " no-failing-input-found"
        lines.append("VIOLATION property=%s replay=%s obligation=%s%s" % (prop.id, path, o["name"], tail))
        violations.append({"obligation": o["name"], "replay": path, "reproduced": bool(failing)})

    bounded_info = None
    # the bounded native run: the stand-in for undecided obligations on every tier, and on the
    # thorough tier additionally a supplementary exploration of the real code (never counted as
    # proof; a failing input is a violation with a replayable witness)
    if (undecided or tier == "thorough") and not violations:
        bj, bdesc = prop.bounded(tier, seed)
        if (getattr(prop, "wf", False) and hasattr(prop, "accepted_neighbourhood") and prop.id != "C04"
                and any(t in u["unit"] for u in undecided for t in ("parse_vector", "check_mandatory", "__init__", "from_rh_vector"))):
            # the undecided part is the parser / constructor: what it accepts is part of the question
            aj, adesc = prop.accepted_neighbourhood(tier)
            bj = aj + list(bj)
            bdesc = adesc + "; " + bdesc
        bj = with_known(prop.id, bj)
        bounded_info = {"bound": bdesc, "inputs": len(bj), "failed": 0,
                        "role": "stand-in for undecided obligations" if undecided else "supplementary exploration (thorough tier)"}
        if bj:
            try:
                res = native_parallel(bj, procs) if len(bj) > 2000 else native(bj, stop_at_first=True, timeout=1800)
                for job, rr in zip(bj, res):
                    if not rr["ok"]:
                        bounded_info["failed"] = 1
                        path = os.path.join(VERIF, "replays", prop.id, "bounded_standin.json")
                        with open(path, "w") as f:
                            json.dump(
                                {
                                    "property": prop.id,
                                    "obligation": "bounded stand-in for undecided obligations (%s)" % bdesc,
                                    "undecided": undecided[:20],
                                    "failing_input": {"job": job, "result": rr},
                                    "replay": "python3-vt -m pyvc replay %s" % path,
                                },
                                f,
                                indent=1,
                                default=str,
                            )
                        lines.append("VIOLATION property=%s replay=%s obligation=bounded-stand-in" % (prop.id, path))
                        violations.append({"obligation": "bounded-stand-in", "replay": path, "reproduced": True})
                        break
                bounded_info["inputs_run"] = sum(1 for r in res if not str(r.get("detail") or "").startswith("not run"))
            except Exception as e:  # noqa
                bounded_info["error"] = repr(e)

    for k, o in known_hits:
        lines.append("KNOWN-FINDING: property=%s %s" % (prop.id, k.get("what", o["name"])))

    wall = time.time() - t0
    backends = {}
    for o in discharged:
        b = o.get("backend") or "z3"
        backends[b] = backends.get(b, 0) + 1
    n_obl = len(obligations) - len([o for o in refuted if is_known(o)])
    level = "proof"
    from pyvc.source import sources

    src = sources()
    hashes = {}
    for m in ("cvss2", "cvss3", "cvss4", "constants2", "constants3", "constants4", "parser", "interactive", "cvss_calculator", "exceptions"):
        hashes[m] = sha(src.path(m))
    samples = []
    for o in (refuted + discharged)[:0]:
        pass
    pick = refuted[:3] + discharged[:: max(1, len(discharged) // 8)][:8]
    for o in pick:
        samples.append({"obligation": o["name"], "unit": o["unit"], "status": o["status"],
                        "backend": o.get("backend"), "detail": o.get("detail"), "seconds": o.get("seconds")})
    functions = sorted({r["unit"].split("[")[0] for r in results})
    evidence = {
        "property_id": prop.id,
        "tier": tier,
        "seed": int(seed),
        "level": level if not undecided else "proof",
        "coverage": {
            "obligations": max(n_obl, 0),
            "discharged": len(discharged),
            "checker_cmd": "python3-vt -m pyvc check %s --tier %s" % (prop.id, tier),
            "trusted_base": [TRUSTED[t] for t in prop.trusted],
            "samples": samples,
            "functions_under_contract": functions,
            "units": len(results),
            "units_reused_from_content_addressed_cache": sum(1 for r in results if r.get("cached")),
            "paths": sum(r["paths"] for r in results),
            "backends": backends,
            "solver_checks": sum(r.get("solver_checks", 0) for r in results),
            "solver_seconds": round(sum(r.get("solver_seconds", 0) for r in results), 2),
            "unit_seconds": round(sum(r.get("seconds", 0) for r in results), 2),
            "fd_grid_points": sum(r.get("fd_points", 0) for r in results),
            "second_solver_cvc5_on_z3_unsat_verdicts": {k: sum((r.get("second_opinion") or {}).get(k, 0) for r in results) for k in ("unsat", "sat", "none", "skipped_over_budget")},
            "refuted": len(refuted),
            "obligations_of_shared_units_belonging_to_other_properties": excluded,
            "known_findings": [k.get("what") for k, _ in known_hits],
            "undecided": undecided[:40],
            "undecided_count": len(undecided),
            "bounded_stand_in": bounded_info,
            "technique": prop.technique,
            "source_sha256": hashes,
            "explanation": "every obligation is generated from the AST of the current tree's functions and discharged per path; "
                           "obligations = VC instances (clause x path) + lemma instances",
        },
        "assumptions": [TRUSTED[t] for t in prop.trusted] + list(prop.assumptions),
        "wall_s": round(wall, 2),
        "violations": len(violations),
    }
    os.makedirs(os.path.join(VERIF, "evidence"), exist_ok=True)
    with open(os.path.join(VERIF, "evidence", prop.id + ".json"), "w") as f:
        json.dump(evidence, f, indent=1, default=str)

    for l in lines:
        print(l)
    print(
        "%s %s: units=%d paths=%d obligations=%d discharged=%d refuted=%d undecided=%d known=%d wall=%.1fs"
        % (prop.id, tier, len(results), evidence["coverage"]["paths"], n_obl, len(discharged), len(refuted),
           len(undecided), len(known_hits), wall)
    )
    if crashes and verbose:
        for c in crashes[:3]:
            print("CRASH in", c["unit"], "\n", c["trace"])
    if violations:
        for u in undecided[:5]:
            print("UNDECIDED: %s: %s" % (u["unit"], u["reason"]))
        return 1
    if n_obl <= 0 and not known_hits:
        print("ERROR: zero obligations generated for %s" % prop.id)
        return 3
    if undecided:
        for u in undecided[:10]:
            print("UNDECIDED: %s: %s" % (u["unit"], u["reason"]))
        if bounded_info and bounded_info.get("inputs_run") and not bounded_info.get("failed") and not bounded_info.get("error"):
            print("bounded stand-in passed on %d inputs (%s); undecided obligations are NOT counted as proved"
                  % (bounded_info["inputs_run"], bounded_info["bound"]))
            return 0
        return 2
    return 0


def replay(path):
    with open(path) as f:
        d = json.load(f)
    fi = d.get("failing_input")
    print("obligation:", d.get("obligation"))
    if not fi:
        print("no failing input was found for this obligation; verifier output:")
        print(json.dumps(d.get("counter_model"), indent=1)[:4000])
        return 1
    res = native([fi["job"]])
    print("input:", json.dumps(fi["job"]))
    print("native result:", json.dumps(res[0])[:2000])
    return 0 if res[0]["ok"] else 1
