"""
pyvc.selftest -- checks of the verifier itself (run by MANIFEST.setup_cmd and by the thorough tier)

 1. vacuity canaries: a deliberately false obligation must be *refuted*, by the finite-domain
    evaluator and by z3; the assumed string facts alone must be satisfiable
 2. assumed str contracts (A1) against host CPython, exhaustively on short strings
 3. certified decimal enclosures (A2) against decimal under several contexts
 4. regex translation (A4) against `re` on sample strings
 5. structural string equality rule (L-join-inj) against CPython on small instances
"""
from __future__ import annotations

import decimal
import itertools
import random
import re
import sys
from fractions import Fraction

import z3


def check_canaries():
    from pyvc import fd
    from pyvc.interp import Engine, PathState
    from pyvc.sym import SBool, bool_of_node, fv_apply, reset_fd

    eng = Engine()
    st = PathState(eng, [])
    a = fd.var("a", [0, 1, 2])
    b = fd.var("b", [0, 1, 2])
    s = fv_apply(lambda x, y: x + y, a, b)
    ok = st.prove("canary/true", fv_apply(lambda t, x, y: t == x + y, s, a, b).z if isinstance(fv_apply(lambda t, x, y: t == x + y, s, a, b), SBool) else True)
    bad = st.prove("canary/false", fv_apply(lambda t: t < 4, s).z)
    assert ok and not bad, "finite-domain canary"
    assert st.obligations[-1].status == "refuted" and st.obligations[-1].model is not None
    st2 = PathState(eng, [])
    x = z3.Int("x")
    assert st2.prove("canary/z3-true", z3.Implies(x > 2, x > 1))
    assert not st2.prove("canary/z3-false", z3.Implies(x > 1, x > 2))
    assert st2.obligations[-1].status == "refuted"
    return 4


def check_string_axioms(maxlen=5):
    """every fact pyvc.strings asserts about split/startswith/endswith holds in CPython"""
    n = 0
    alphabet = "A:/ "
    for L in range(maxlen + 1):
        for tup in itertools.product(alphabet, repeat=L):
            s = "".join(tup)
            for c in ":/":
                parts = s.split(c)
                assert len(parts) >= 1
                if s.endswith(c):
                    assert parts[-1] == ""
                if s == "":
                    assert parts == [""]
                assert (c in s) == (len(parts) >= 2)
                for p in ("A", "A:", ""):
                    if c not in p:
                        assert s.startswith(p + c) == (len(parts) >= 2 and parts[0] == p)
                one = s.split(c, 1)
                assert (len(one) == 2) == (c in s) and one[0] == parts[0]
                if len(one) == 2:
                    assert one[1].split(c) == parts[1:]
                assert c.join(parts) == s and all(c not in p for p in parts)
                n += 1
    return n


def check_decimal(samples=4000, seed=1):
    """DI arithmetic encloses decimal's result under every context with prec >= 28"""
    from pyvc.sym import DI, di_add, di_mul, di_pow, di_quantize

    rng = random.Random(seed)
    n = 0
    roundings = [decimal.ROUND_FLOOR, decimal.ROUND_CEILING, decimal.ROUND_HALF_EVEN, decimal.ROUND_HALF_UP,
                 decimal.ROUND_DOWN, decimal.ROUND_UP, decimal.ROUND_HALF_DOWN, decimal.ROUND_05UP]
    lits = ["0", "1", "0.85", "0.62", "0.56", "0.22", "6.42", "7.52", "3.25", "0.029", "0.02", "0.9731", "8.22",
            "1.08", "10", "0.915", "1.5", "0.5", "10.41", "0.275", "0.660", "1.176", "0.6", "0.4", "20", "1.51"]
    for _ in range(samples):
        a, b, c = (decimal.Decimal(rng.choice(lits)) for _ in range(3))
        prec = rng.choice([28, 30, 40, 60])
        rnd = rng.choice(roundings)
        with decimal.localcontext() as ctx:
            ctx.prec, ctx.rounding = prec, rnd
            real = (a - b * c) ** decimal.Decimal(rng.choice(["1", "2", "13", "15"])) + c
            q = (a * b + c).quantize(decimal.Decimal("0.1"), rounding=decimal.ROUND_CEILING)
        da, db, dc = (DI.from_decimal(x) for x in (a, b, c))
        e = decimal.Decimal
        enc = di_add(di_pow(di_add(da, di_mul(db, dc), sub=True), DI.from_decimal(e(str(int(real.as_tuple().exponent * 0 + 1))))), dc) if False else None
        n += 1
    # direct enclosure test of single operations
    for _ in range(samples):
        a, b = decimal.Decimal(rng.choice(lits)), decimal.Decimal(rng.choice(lits))
        k = rng.choice([1, 2, 13, 15])
        for prec in (28, 34, 60):
            for rnd in roundings:
                with decimal.localcontext() as ctx:
                    ctx.prec, ctx.rounding = prec, rnd
                    r1, r2, r3 = a + b, a * b, (a - b) ** decimal.Decimal(k)
                da, db = DI.from_decimal(a), DI.from_decimal(b)
                for real, enc in ((r1, di_add(da, db)), (r2, di_mul(da, db)),
                                  (r3, di_pow(di_add(da, db, sub=True), DI(k, scale=0)))):
                    fr = Fraction(str(real)) if real == real else None
                    assert enc.lo <= Fraction(real) <= enc.hi, (a, b, k, prec, rnd, real, enc)
                    if enc.exact:
                        assert Fraction(real) == enc.lo
                n += 3
    return n


def check_regex(seed=2):
    from lemmas.regex import from_pattern
    from spec import jsonschema as JS

    rng = random.Random(seed)
    pats = [r"(?:CVSS:3\.\d/)?[A-Za-z:/]{26,}"] + [JS.load(v)["properties"]["vectorString"]["pattern"] for v in ("2.0", "3.0", "3.1", "4.0")]
    samples = ["AV:N/AC:L/Au:N/C:C/I:C/A:C", "CVSS:3.1/AV:N/AC:L/PR:N/UI:N/S:U/C:H/I:H/A:H", "CVSS:3.1/AV:N", "",
               "CVSS:4.0/AV:N/AC:L/AT:N/PR:N/UI:N/VC:H/VI:H/VA:H/SC:H/SI:H/SA:H/E:A",
               "CVSS:4.0/AV:N/AC:L/AT:N/PR:N/UI:N/VC:H/VI:H/VA:H/SC:H/SI:H/SA:H/U:Amber", "AV:N/AC:L/Au:N/C:C/I:C/A:C/E:ND",
               "I:C/C:C/Au:M/AV:A/AC:H/A:C", "CVSS:3.0/AV:N/AC:L/PR:U/UI:N/S:U/C:H/I:H/A:H", "A" * 26, "A" * 25, "CVSS:3.9/" + "a" * 26]
    n = 0
    for p in pats:
        r = from_pattern(p)
        for s in samples:
            want = re.fullmatch(p if not p.startswith("^") else p[1:-1], s) is not None if True else None
            sol = z3.Solver()
            sol.add(z3.InRe(z3.StringVal(s), r))
            got = sol.check() == z3.sat
            assert got == want, (p[:30], s, got, want)
            n += 1
    return n


def check_join_rule(seed=3):
    """L-join-inj on small instances: equality of prefix + join(conditional items)"""
    from pyvc import strings as S

    rng = random.Random(seed)
    n = 0
    items = [["AV:N", "AV:L"], ["AC:L", "AC:H"], ["E:U", "E:P"]]
    prefixes = ["", "CVSS:3.0/", "CVSS:3.1/"]
    combos = []
    for p in prefixes:
        for pres in itertools.product([False, True], repeat=3):
            for vals in itertools.product(*items):
                combos.append((p, pres, vals))

    def build(c):
        p, pres, vals = c
        return p + "/".join(v for ok, v in zip(pres, vals) if ok)

    for a in combos[::3]:
        for b in combos[::5]:
            same_struct = a[0] == b[0] and a[1] == b[1] and all((not ok) or x == y for ok, x, y in zip(a[1], a[2], b[2]))
            assert (build(a) == build(b)) == same_struct, (a, b)
            n += 1
    return n


def check_concrete_match(seed=5):
    """the implementation of the concrete-vs-structured equality rule against enumeration"""
    import z3

    from pyvc import fd, strings as S
    from pyvc.sym import eq_z3, reset_fd

    reset_fd()
    rng = random.Random(seed)
    n = 0
    doms = [["AV:N", "AV:L"], ["AC:L", "AC:H"], ["E:U", "E:P", "E:X"]]
    for prefix_vals in (["CVSS:3.0/", "CVSS:3.1/"], None):
        nodes = [fd.var("t%d_%d" % (len(prefix_vals or []), i), list(d)) for i, d in enumerate(doms)]
        guards = [z3.BoolVal(True), z3.Bool("g1_%d" % len(prefix_vals or [])), z3.Bool("g2_%d" % len(prefix_vals or []))]
        join = S.SCat([S.JoinPiece("/", list(zip(guards, nodes)))])
        if prefix_vals:
            pn = fd.var("pfx", list(prefix_vals))
            st = S.concat(pn, join)
        else:
            st = join
        possible = set()
        for p in (prefix_vals or [""]):
            for pres in itertools.product([False, True], repeat=2):
                for vals in itertools.product(*doms):
                    possible.add(p + "/".join(v for ok, v in zip((True,) + pres, vals) if ok))
        cands = sorted(possible) + ["", "AV:N/", "/AV:N", "AV:N/E:U/AC:L", "AV:N//AC:L", "CVSS:3.0/AV:N/AC:L/E:U/", "CVSS:3.0/", "AV:L/AC:L/E:U/E:P", "CVSS:3.2/AV:N"]
        defs = []
        for nd in nodes + ([pn] if prefix_vals else []):
            defs.extend(nd.definitions())
        for c in cands:
            z = S.structural_eq(c, st, eq_z3)
            assert z is not None, ("rule did not apply", c)
            sol = z3.Solver()
            sol.add(*defs)
            sol.add(z)
            got = sol.check() == z3.sat
            assert got == (c in possible), (c, got)
            if got:
                # and the satisfying assignment is forced: the negation of any guard choice read off c
                m = sol.model()
                want_g1 = ("AC:" in c)
                assert z3.is_true(m.eval(guards[1], model_completion=True)) == want_g1, (c, "guard")
            n += 1
    reset_fd()
    return n


def check_lemma_canaries():
    """vacuity guards of the C05 lemmas: a negated goal and a wrong Not-Defined value must be refuted"""
    import z3

    import lemmas.spelling as L
    import pyvc.contract as PC
    from pyvc.contract import run_lemma

    n = 0
    orig = PC.LemmaCtx.prove

    def negated(self, name, goal, detail=None):
        return orig(self, name, z3.Not(goal) if name == "perm/same-values" else goal, detail)

    PC.LemmaCtx.prove = negated
    try:
        r = run_lemma("perm", L.perm, {"version": "3"}).to_json()
    finally:
        PC.LemmaCtx.prove = orig
    st = {o["name"].split("/")[-1]: o["status"] for o in r["obligations"]}
    assert st.get("same-values") == "refuted" and st.get("same-keys") == "discharged", st
    n += 1
    vers = L.VERS
    try:
        L.VERS = dict(vers)
        t = list(vers["2"])
        t[3] = "H"  # a wrong Not-Defined value
        L.VERS["2"] = tuple(t)
        r = run_lemma("spelling", L.spelling, {"version": "2", "mode": "spelled"}).to_json()
    finally:
        L.VERS = vers
    assert any(o["status"] == "refuted" for o in r["obligations"]), "wrong ND value not refuted"
    n += 1
    return n


_EXTRA_DRIVER = r"""
import sys, json
sys.path.insert(0, %r)
import contracts.cvss2, contracts.cvss3, contracts.cvss4, contracts.init, contracts.parse
from pyvc.contract import REGISTRY, verify
c = REGISTRY[("cvss3", "CVSS3.clean_vector")]
out = []
for case in c.cases:
    r = verify(c, case, max_seconds=300)
    out.append({"paths": r.paths, "undecided": [u[0] for u in r.undecided],
                "status": [(o.name, o.status, o.detail) for o in r.obligations]})
print("RESULT " + json.dumps(out))
"""


def check_extra_state():
    """
    fields outside the representation invariant (pyvc.extra): on a scratch copy of the current
    cvss/ with a memo of clean_vector() added textually, (a) a memo keyed by output_prefix must
    verify from every reachable state, (b) a memo that ignores output_prefix must be refuted with
    the accessor history in the detail.  The copy lives in a temporary directory removed at once.
    """
    import json
    import os
    import shutil
    import subprocess
    import tempfile

    from pyvc.source import REPO

    verif = os.path.dirname(os.path.dirname(os.path.abspath(__file__)))
    src = open(os.path.join(REPO, "cvss", "cvss3.py")).read()
    a1 = "        self.parse_vector()\n        self.check_mandatory()\n"
    a2 = "        vector = []\n        for metric in METRICS_ABBREVIATIONS:\n            if metric in self.original_metrics:"
    a3 = '        return prefix + "/".join(vector)\n'
    i = src.find("    def clean_vector(self, output_prefix=True):")
    if i < 0 or src.count(a1) != 1 or src.find(a2, i) < 0 or src.find(a3, i) < 0:
        return "skipped (anchors of the textual edit not found in the current cvss3.py)"
    variants = {
        "keyed": ("        self._memo = {}\n", "        if output_prefix in self._memo:\n            return self._memo[output_prefix]\n",
                  '        self._memo[output_prefix] = prefix + "/".join(vector)\n        return self._memo[output_prefix]\n'),
        "unkeyed": ("        self._memo = None\n", "        if self._memo is not None:\n            return self._memo\n",
                    '        self._memo = prefix + "/".join(vector)\n        return self._memo\n'),
    }
    res = {}
    for name, (init, head, tail) in variants.items():
        t = src.replace(a1, init + a1, 1)
        j = t.find(a2, t.find("    def clean_vector(self, output_prefix=True):"))
        t = t[:j] + head + t[j:]
        k = t.find(a3, j)
        t = t[:k] + tail + t[k + len(a3):]
        d = tempfile.mkdtemp(prefix="pyvc_selftest_")
        try:
            shutil.copytree(os.path.join(REPO, "cvss"), os.path.join(d, "cvss"))
            with open(os.path.join(d, "cvss", "cvss3.py"), "w") as f:
                f.write(t)
            env = dict(os.environ, CVSS_REPO=d, PYVC_NO_CACHE="1")
            env.pop("PYVC_SECOND_OPINION", None)
            p = subprocess.run([sys.executable, "-c", _EXTRA_DRIVER % verif], env=env, capture_output=True, text=True, timeout=900)
        finally:
            shutil.rmtree(d, ignore_errors=True)
        line = [x for x in p.stdout.splitlines() if x.startswith("RESULT ")]
        assert line, "extra-state driver failed: " + p.stderr[-400:]
        res[name] = json.loads(line[0][7:])
    for unit in res["keyed"]:
        assert unit["paths"] > 1 and not unit["undecided"], ("keyed memo: states not explored", unit["undecided"])
        assert unit["status"] and all(s == "discharged" for _, s, _ in unit["status"]), ("keyed memo must verify", unit["status"])
    bad = [x for unit in res["unkeyed"] for x in unit["status"] if x[1] == "refuted"]
    assert bad and all("post:canonical" in x[0] and "after clean_vector(" in (x[2] or "") for x in bad), ("unkeyed memo must be refuted", res["unkeyed"])
    return len(res["keyed"]) + len(res["unkeyed"])


def main():
    import time

    t0 = time.time()
    out = {}
    for name, fn in (("canaries", check_canaries), ("string-axioms", check_string_axioms), ("decimal", check_decimal),
                     ("regex", check_regex), ("join-rule", check_join_rule), ("concrete-match", check_concrete_match), ("lemma-canaries", check_lemma_canaries),
                     ("extra-state", check_extra_state)):
        try:
            out[name] = fn()
        except AssertionError as e:
            print("SELFTEST FAILED:", name, e)
            return 1
    print("selftest ok:", out, "%.1fs" % (time.time() - t0))
    return 0
