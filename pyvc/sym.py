"""
pyvc.sym -- symbolic value domain of the verification-condition generator.

Value kinds handled by the executor (pyvc.interp):

* concrete Python values (str, int, float, bool, None, tuple, list, dict, OrderedDict,
  exception classes, ...) -- represented by themselves;
* SStr / SBool / SInt -- a z3 term.  Strings are *abstract*: the z3 sort is Int and every
  string literal that occurs in the code under verification, in its tables or in a contract is
  interned to a distinct integer code (so literals are pairwise distinct for free and the
  simplifier can resolve select-over-store at literal keys).  Library functions on abstract
  strings are uninterpreted functions (see pyvc.strings);
* FV -- a *finite choice*: a list of (guard, concrete value) leaves whose guards are z3
  formulas that are pairwise exclusive and jointly exhaustive under the path condition at the
  point of creation.  Operations on FVs are applied leaf-wise by host CPython and the results
  are regrouped by value (guards of equal results are or-ed);
* DI -- a decimal.Decimal seen as a rational interval [lo, hi] that encloses the value the
  real code holds under *every* decimal context with prec >= 28 and any rounding mode
  (exact results: lo == hi and `scale` = number of decimal places);
* SMap -- a symbolic dict str -> str (z3 arrays dom/val), SSeq -- a symbolic list of strings,
  SObj -- an instance whose fields hold values of any kind above.
"""
from __future__ import annotations

import itertools
import struct
from fractions import Fraction

import z3

from . import fd

# --------------------------------------------------------------------------------------------
# abstract strings: interned literal codes

StrSort = z3.IntSort()


class _Intern(object):
    def __init__(self):
        self.code = {}
        self.rev = []

    def lit(self, s):
        assert isinstance(s, str), s
        c = self.code.get(s)
        if c is None:
            c = len(self.rev)
            self.code[s] = c
            self.rev.append(s)
        return z3.IntVal(c)

    def decode(self, n):
        n = int(n)
        if 0 <= n < len(self.rev):
            return self.rev[n]
        return None


INTERN = _Intern()
lit = INTERN.lit


def is_lit(z):
    return z3.is_int_value(z)


def lit_value(z):
    return INTERN.decode(z.as_long())


class SStr(object):
    """abstract string: z3 Int term (interned code or unknown)"""

    __slots__ = ("z",)

    def __init__(self, z):
        self.z = z

    def __repr__(self):
        return "SStr(%s)" % (self.z,)


class SBool(object):
    __slots__ = ("z",)

    def __init__(self, z):
        self.z = z

    def __repr__(self):
        return "SBool(%s)" % (self.z,)


class SInt(object):
    __slots__ = ("z",)

    def __init__(self, z):
        self.z = z

    def __repr__(self):
        return "SInt(%s)" % (self.z,)


def str_z(v):
    """z3 term of a concrete, abstract or finite-choice string"""
    if isinstance(v, SStr):
        return v.z
    if isinstance(v, str):
        return lit(v)
    if isinstance(v, fd.Node) and all(isinstance(x, str) for x in v.values):
        ls = v.leaves
        t = lit(ls[-1][1])
        for g, x in reversed(ls[:-1]):
            t = z3.If(g, lit(x), t)
        return t
    raise TypeError("not a string value: %r" % (v,))


# z3 term id -> finite-domain node, for the value terms of finite-domain string variables
TERM_REG = {}


def term_to_fd(z, depth=0):
    """finite-domain node of a z3 string term built from registered variables, literals and ITE"""
    k = z.get_id()
    r = TERM_REG.get(k)
    if r is not None:
        return r[0]
    if is_lit(z):
        return lit_value(z)
    if z3.is_app_of(z, z3.Z3_OP_ITE) and depth < 40:
        c = bool_node_strict(z.arg(0))
        if c is None:
            return None
        a = term_to_fd(z.arg(1), depth + 1)
        if a is None:
            return None
        b = term_to_fd(z.arg(2), depth + 1)
        if b is None:
            return None
        try:
            r = fd.apply(lambda cc, aa, bb: aa if cc else bb, c, a, b)
        except (fd.TooBig, fd.ApplyRaise):
            return None
        if isinstance(r, fd.Node):
            TERM_REG[k] = (r, z)
        return r
    return None


def bool_node_strict(z):
    """bool_node without bridging: None when the formula is not purely finite-domain"""
    if z3.is_true(z):
        return True
    if z3.is_false(z):
        return False
    k = z.get_id()
    if k in _BRIDGE:
        r = _BRIDGE[k][0]
        return None if (isinstance(r, fd.Node) and r.zdefs is not None) else r
    if k in fd.GUARD_REG:
        return bool_node(z)
    if z3.is_not(z):
        a = bool_node_strict(z.arg(0))
        if a is None:
            return None
        return (not a) if isinstance(a, bool) else fd.apply(lambda x: not x, a)
    if z3.is_and(z) or z3.is_or(z):
        parts = []
        for c in z.children():
            p = bool_node_strict(c)
            if p is None:
                return None
            parts.append(p)
        is_and = z3.is_and(z)
        nodes = [p for p in parts if isinstance(p, fd.Node)]
        consts = [p for p in parts if not isinstance(p, fd.Node)]
        if is_and and not all(consts):
            return False
        if (not is_and) and any(consts):
            return True
        if not nodes:
            return is_and
        # fold pairwise to keep tables small
        acc = nodes[0]
        try:
            for n in nodes[1:]:
                acc = fd.apply((lambda a, b: a and b) if is_and else (lambda a, b: a or b), acc, n)
                if not isinstance(acc, fd.Node):
                    if acc != is_and:
                        return acc
                    acc = None
                    break
        except fd.TooBig:
            return None
        if acc is None:
            return is_and
        r = acc
        _BRIDGE[k] = (r, z)
        return r
    if z3.is_implies(z) or (z3.is_eq(z) and z3.is_bool(z.arg(0))) or z3.is_distinct(z) and z.num_args() == 2 and z3.is_bool(z.arg(0)):
        a = bool_node_strict(z.arg(0))
        if a is None:
            return None
        b = bool_node_strict(z.arg(1))
        if b is None:
            return None
        if z3.is_implies(z):
            f = lambda x, y: (not x) or y  # noqa
        elif z3.is_eq(z):
            f = lambda x, y: bool(x) == bool(y)  # noqa
        else:
            f = lambda x, y: bool(x) != bool(y)  # noqa
        try:
            r = fd.apply(f, a, b)
        except (fd.TooBig, fd.ApplyRaise):
            return None
        if isinstance(r, fd.Node):
            _BRIDGE[k] = (r, z)
        return r
    if z3.is_eq(z) and not z3.is_bool(z.arg(0)):
        a = term_to_fd(z.arg(0))
        if a is None:
            return None
        b = term_to_fd(z.arg(1))
        if b is None:
            return None
        try:
            r = fd.apply(lambda x, y: x == y, a, b)
        except (fd.TooBig, fd.ApplyRaise):
            return None
        if isinstance(r, fd.Node):
            _BRIDGE[k] = (r, z)
        return r
    if z3.is_app_of(z, z3.Z3_OP_ITE):
        c = bool_node_strict(z.arg(0))
        a = bool_node_strict(z.arg(1))
        b = bool_node_strict(z.arg(2))
        if c is None or a is None or b is None:
            return None
        return fd.apply(lambda cc, aa, bb: aa if cc else bb, c, a, b)
    return None


def mk_str(z):
    z = z3.simplify(z)
    if is_lit(z):
        s = lit_value(z)
        if s is not None:
            return s
    n = term_to_fd(z)
    if n is not None:
        return n
    return SStr(z)


def mk_bool(z):
    z = z3.simplify(z)
    if z3.is_true(z):
        return True
    if z3.is_false(z):
        return False
    return SBool(z)


def bool_z(v):
    if isinstance(v, SBool):
        return v.z
    if isinstance(v, bool):
        return z3.BoolVal(v)
    raise TypeError("not a bool value: %r" % (v,))


# --------------------------------------------------------------------------------------------
# decimal intervals

PREC = 28  # minimum context precision assumed (decimal default)
REL = Fraction(1, 10 ** (PREC - 1))  # one ulp at 28 significant digits, relative


def _ndigits(n):
    n = abs(int(n))
    return len(str(n)) if n else 1


class DI(object):
    """
    A decimal.Decimal held by the code, as an enclosure valid for every context with
    prec >= 28 and any rounding mode.  exact <=> lo == hi, and then `scale` is the number of
    decimal places of the Decimal's representation (its exponent is -scale).
    zsign: sign of the value when it is an exact zero: '+', '-' or '?' (context dependent).
    """

    __slots__ = ("lo", "hi", "scale", "zsign")

    def __init__(self, lo, hi=None, scale=None, zsign="+"):
        self.lo = Fraction(lo)
        self.hi = self.lo if hi is None else Fraction(hi)
        self.scale = scale if self.lo == self.hi else None
        self.zsign = zsign if (self.lo == 0 and self.hi == 0) else "+"
        assert self.lo <= self.hi

    @property
    def exact(self):
        return self.lo == self.hi and self.scale is not None

    @staticmethod
    def from_decimal(d):
        sign, digits, exp = d.as_tuple()
        if not isinstance(exp, int):
            raise ValueError("non-finite Decimal")
        val = Fraction(int(d.scaleb(0).to_integral_value()) if False else 0)
        coef = int("".join(map(str, digits))) if digits else 0
        val = Fraction(coef) * (Fraction(10) ** exp)
        if sign:
            val = -val
        return DI(val, val, scale=-exp, zsign="-" if sign else "+")

    def key(self):
        return ("DI", self.lo, self.hi, self.scale, self.zsign)

    def __repr__(self):
        if self.exact:
            return "DI(%s @%s%s)" % (
                float(self.lo),
                self.scale,
                "" if self.lo != 0 else self.zsign,
            )
        return "DI[%r, %r]" % (float(self.lo), float(self.hi))

    def value(self):
        assert self.lo == self.hi
        return self.lo


class NumericUndecided(Exception):
    """the enclosure is too wide to decide an operation (comparison / rounding)"""


def _fits(val, scale):
    """can val (exact rational with `scale` decimal places) be a coefficient of <= PREC digits"""
    coef = val * (10 ** scale) if scale >= 0 else val / (10 ** (-scale))
    if coef.denominator != 1:
        return False
    return _ndigits(coef.numerator) <= PREC


def _widen(lo, hi):
    """outward relative rounding error of one decimal operation, any rounding mode"""
    m = max(abs(lo), abs(hi))
    return lo - m * REL, hi + m * REL


def di_add(a, b, sub=False):
    blo, bhi = (-b.hi, -b.lo) if sub else (b.lo, b.hi)
    lo, hi = a.lo + blo, a.hi + bhi
    if a.exact and b.exact:
        scale = max(a.scale, b.scale)
        if _fits(lo, scale):
            z = "+"
            if lo == 0:
                az = a.zsign if a.lo == 0 else None
                bz = b.zsign if b.lo == 0 else None
                if bz is not None and sub:
                    bz = {"+": "-", "-": "+", "?": "?"}[bz]
                if az is not None and bz is not None:
                    # (+0)+(+0)=+0, (-0)+(-0)=-0, mixed: -0 only under ROUND_FLOOR
                    z = az if az == bz else "?"
                else:
                    z = "?"  # x + (-x): -0 under ROUND_FLOOR, +0 otherwise
            return DI(lo, hi, scale=scale, zsign=z)
    lo, hi = _widen(lo, hi)
    return DI(lo, hi)


def di_mul(a, b):
    cands = [a.lo * b.lo, a.lo * b.hi, a.hi * b.lo, a.hi * b.hi]
    lo, hi = min(cands), max(cands)
    if a.exact and b.exact:
        scale = a.scale + b.scale
        if _fits(lo, scale):
            z = "+"
            if lo == 0:
                sa = _sign(a)
                sb = _sign(b)
                if sa == "?" or sb == "?":
                    z = "?"
                else:
                    z = "+" if sa == sb else "-"
            return DI(lo, hi, scale=scale, zsign=z)
    lo, hi = _widen(lo, hi)
    return DI(lo, hi)


def _sign(a):
    if a.lo == 0 and a.hi == 0:
        return a.zsign
    if a.lo >= 0:
        return "+"
    if a.hi <= 0:
        return "-"
    return "?"


def di_pow(a, b):
    if not (b.exact and b.lo.denominator == 1 and b.lo >= 0):
        raise NumericUndecided("Decimal power with a non-integer or negative exponent")
    n = int(b.lo)
    if n == 0:
        return DI(1, 1, scale=0)
    cands = [a.lo ** n, a.hi ** n]
    if a.lo < 0 < a.hi:
        cands.append(Fraction(0))
    lo, hi = min(cands), max(cands)
    if a.exact:
        scale = a.scale * n
        if _fits(lo, scale):
            return DI(lo, hi, scale=scale, zsign="+" if (n % 2 == 0 or a.zsign == "+") else "-")
    # libmpdec / _pydecimal integer power: stated contract (A2) relative error <= 1 ulp
    lo, hi = _widen(lo, hi)
    return DI(lo, hi)


def di_neg(a):
    return DI(-a.hi, -a.lo, scale=a.scale, zsign={"+": "-", "-": "+", "?": "?"}[a.zsign])


def di_cmp(a, b):
    """-1, 0, 1 or raises NumericUndecided"""
    if a.hi < b.lo:
        return -1
    if a.lo > b.hi:
        return 1
    if a.lo == a.hi == b.lo == b.hi:
        return 0
    raise NumericUndecided(
        "comparison of %r and %r is not decided by the certified enclosure" % (a, b)
    )


def di_min(args):
    # Python's min returns the first minimal element
    best = args[0]
    for x in args[1:]:
        try:
            c = di_cmp(x, best)
        except NumericUndecided:
            # enclosure of min: exactness lost, sound bounds kept
            return DI(min(x.lo, best.lo), min(x.hi, best.hi))
        if c < 0:
            best = x
    return best


def di_max(args):
    best = args[0]
    for x in args[1:]:
        try:
            c = di_cmp(x, best)
        except NumericUndecided:
            return DI(max(x.lo, best.lo), max(x.hi, best.hi))
        if c > 0:
            best = x
    return best


def di_quantize(a, exp, rounding):
    """a.quantize(exp, rounding=...) with an explicit rounding mode"""
    if not exp.exact:
        raise NumericUndecided("quantize exponent not exact")
    # the exponent of the result is the exponent of `exp`
    scale = exp.scale
    unit = Fraction(1, 10 ** scale) if scale >= 0 else Fraction(10 ** (-scale))

    def rnd(x):
        q = x / unit
        fl = q.numerator // q.denominator
        frac = q - fl
        if rounding == "ROUND_CEILING":
            r = fl if frac == 0 else fl + 1
        elif rounding == "ROUND_FLOOR":
            r = fl
        elif rounding == "ROUND_HALF_UP":
            if x >= 0:
                r = fl + 1 if frac >= Fraction(1, 2) else fl
            else:
                r = fl if frac <= Fraction(1, 2) else fl + 1
        elif rounding == "ROUND_HALF_DOWN":
            if x >= 0:
                r = fl + 1 if frac > Fraction(1, 2) else fl
            else:
                r = fl if frac < Fraction(1, 2) else fl + 1
        elif rounding == "ROUND_HALF_EVEN":
            if frac > Fraction(1, 2):
                r = fl + 1
            elif frac < Fraction(1, 2):
                r = fl
            else:
                r = fl if fl % 2 == 0 else fl + 1
        elif rounding == "ROUND_DOWN":
            r = fl if x >= 0 or frac == 0 else fl + 1
        elif rounding == "ROUND_UP":
            if x >= 0:
                r = fl if frac == 0 else fl + 1
            else:
                r = fl
        elif rounding == "ROUND_05UP":
            t = fl if x >= 0 or frac == 0 else fl + 1  # toward zero
            if frac != 0 and abs(t) % 10 in (0, 5):
                t = t + (1 if x >= 0 else -1)
            r = t
        else:
            raise NumericUndecided("quantize with rounding %r" % (rounding,))
        return r

    if rounding is None:
        raise NumericUndecided(
            "quantize() without an explicit rounding mode depends on the ambient decimal context"
        )
    rlo, rhi = rnd(a.lo), rnd(a.hi)
    if rlo != rhi:
        raise NumericUndecided(
            "rounding of %r is not robust against the certified arithmetic error" % (a,)
        )
    val = rlo * unit
    if _ndigits(rlo) > PREC:
        raise NumericUndecided("quantize result exceeds precision")
    z = "+"
    if val == 0:
        s = _sign(a)
        if a.lo == 0 and a.hi == 0:
            z = a.zsign
        elif s == "-":
            z = "-"  # a negative value rounded to zero keeps its sign
        elif s == "?":
            z = "?"
    return DI(val, val, scale=scale, zsign=z)


def di_to_float(a):
    if not a.exact:
        raise NumericUndecided("float() of an inexact Decimal")
    if a.lo == 0:
        if a.zsign == "?":
            raise NumericUndecided("sign of zero depends on the ambient decimal context")
        return -0.0 if a.zsign == "-" else 0.0
    return a.lo.numerator / a.lo.denominator  # correctly rounded, as float(Decimal) is


def di_from_float(x):
    fr = Fraction(x)
    # exact conversion; scale = number of decimal places of the exact binary fraction
    d = fr.denominator
    scale = 0
    while d % 2 == 0:
        d //= 2
        scale += 1
    z = "-" if (x == 0 and struct.pack(">d", x)[0] & 0x80) else "+"
    return DI(fr, fr, scale=scale, zsign=z)


# --------------------------------------------------------------------------------------------
# finite choices


def vkey(v):
    """hashable identity of a concrete leaf value (distinguishes -0.0 / 0.0, 1 / True / 1.0)"""
    if isinstance(v, float):
        return ("f", struct.pack(">d", v))
    if isinstance(v, DI):
        return v.key()
    if isinstance(v, bool):
        return ("b", v)
    if isinstance(v, int):
        return ("i", v)
    if isinstance(v, (tuple, list)):
        return (type(v).__name__,) + tuple(vkey(x) for x in v)
    if isinstance(v, dict):
        return ("d",) + tuple((vkey(k), vkey(x)) for k, x in v.items())
    try:
        hash(v)
        return (type(v).__name__, v)
    except TypeError:
        return ("id", id(v))


FV = fd.Node  # a finite choice is a node of the finite-domain DAG

MAX_LEAVES = fd.MAX_TABLE


class TooManyLeaves(Exception):
    pass


class UnsupportedOp(Exception):
    """operation outside the supported subset (pyvc.interp.Unsupported derives from it)"""


_CTX = z3.main_ctx()
_CREF = _CTX.ref()
_TRUE = z3.BoolVal(True)
_FALSE = z3.BoolVal(False)
_TRUE_ID = _TRUE.get_id()
_FALSE_ID = _FALSE.get_id()


def g_true(g):
    return z3.Z3_get_ast_id(_CREF, g.ast) == _TRUE_ID


def g_false(g):
    return z3.Z3_get_ast_id(_CREF, g.ast) == _FALSE_ID


def _and(gs):
    out = []
    for g in gs:
        i = z3.Z3_get_ast_id(_CREF, g.ast)
        if i == _TRUE_ID:
            continue
        if i == _FALSE_ID:
            return _FALSE
        out.append(g)
    if not out:
        return _TRUE
    if len(out) == 1:
        return out[0]
    arr = (z3.Ast * len(out))(*[g.ast for g in out])
    return z3.BoolRef(z3.Z3_mk_and(_CREF, len(out), arr), _CTX)


def _or(gs):
    out = []
    for g in gs:
        i = z3.Z3_get_ast_id(_CREF, g.ast)
        if i == _FALSE_ID:
            continue
        if i == _TRUE_ID:
            return _TRUE
        out.append(g)
    if not out:
        return _FALSE
    if len(out) == 1:
        return out[0]
    arr = (z3.Ast * len(out))(*[g.ast for g in out])
    return z3.BoolRef(z3.Z3_mk_or(_CREF, len(out), arr), _CTX)


def leaves_of(v):
    if isinstance(v, FV):
        return v.leaves
    if isinstance(v, SBool):
        return [(v.z, True), (z3.Not(v.z), False)]
    return [(_TRUE, v)]


def is_sym(v):
    return isinstance(v, (FV, SStr, SBool, SInt))


_BRIDGE = {}


def bool_node(z):
    """finite-domain view of a z3 Boolean: structure over registered guards is kept, anything
    else becomes a bridging variable whose guards are defined (in z3) by the formula"""
    if isinstance(z, bool):
        return z
    z = z3.simplify(z) if not isinstance(z, z3.BoolRef) else z
    k = z.get_id()
    if k == _TRUE_ID:
        return True
    if k == _FALSE_ID:
        return False
    r = _BRIDGE.get(k)
    if r is not None:
        return r[0]
    reg = fd.GUARD_REG.get(k)
    if reg is not None:
        n, i = reg[0], reg[1]
        if len(n.values) == 2 and n.values[0] is False and n.values[1] is True:
            r = n if i == 1 else fd.normalize_bool(fd.apply(lambda x: not x, n))
        else:
            r = fd.apply(lambda x, v=n.values[i]: vkey(x) == vkey(v), n)
        _BRIDGE[k] = (r, z)
        return r
    r = bool_node_strict(z)
    if r is not None:
        if isinstance(r, fd.Node):
            _BRIDGE[k] = (r, z)
        return r
    if z3.is_not(z):
        a = bool_node(z.arg(0))
        r = (not a) if isinstance(a, bool) else fd.apply(lambda x: not x, a)
    elif z3.is_and(z) or z3.is_or(z):
        parts = [bool_node(c) for c in z.children()]
        is_and = z3.is_and(z)
        nodes = [p for p in parts if isinstance(p, fd.Node)]
        consts = [p for p in parts if not isinstance(p, fd.Node)]
        if is_and and not all(consts):
            r = False
        elif (not is_and) and any(consts):
            r = True
        elif len(nodes) > 6:
            r = None
        else:
            try:
                r = fd.apply((lambda *xs: all(xs)) if is_and else (lambda *xs: any(xs)), *nodes)
            except fd.TooBig:
                r = None
    else:
        r = None
    if r is None:
        bt, bf = z3.Bool("br%d=1" % k), z3.Bool("br%d=0" % k)
        r = fd.var("br%d" % k, [False, True], guards=[bf, bt], zdefs=[bt == z, bf == z3.Not(z)])
    _BRIDGE[k] = (r, z)
    return r


def bool_of_node(n):
    """z3 Boolean for the truth of a finite-domain value"""
    if not isinstance(n, fd.Node):
        return _TRUE if n else _FALSE
    gs = n.guards()
    if len(n.values) == 2 and n.values[0] is False and n.values[1] is True:
        return gs[1]
    return _or([g for g, v in zip(gs, n.values) if v])


def regroup(pairs):
    """[(z3 guard, value)] -> concrete value, SBool or a finite choice"""
    groups = {}
    order = []
    for g, v in pairs:
        if g_false(g):
            continue
        k = vkey(v)
        if k in groups:
            groups[k][0].append(g)
        else:
            groups[k] = ([g], v)
            order.append(k)
    if not order:
        raise ValueError("empty finite choice")
    if len(order) == 1:
        return groups[order[0]][1]
    vals = [groups[k][1] for k in order]
    gs = [_or(groups[k][0]) for k in order]
    if all(isinstance(v, bool) for v in vals):
        return mk_bool(_or([g for g, v in zip(gs, vals) if v]))
    # guards that are values of one existing node: a proper derived node
    bnodes = [bool_node(g) for g in gs]
    if all(isinstance(b, fd.Node) for b in bnodes) and len(bnodes) <= 5:
        def pick(*bs):
            for b, v in zip(bs, vals):
                if b:
                    return v
            return vals[-1]
        try:
            return fd.apply(pick, *bnodes)
        except fd.TooBig:
            pass
    n = fd.Node(vals, (), None)
    bs = n.guards()
    n.zdefs = [b == g for b, g in zip(bs, gs)]
    return n


class LeafRaise(Exception):
    """some leaves of a lifted application raise: [(exception, z3 guard)] and the ok value"""

    def __init__(self, exc_leaves, ok_value):
        Exception.__init__(self)
        self.exc_leaves = exc_leaves
        self.ok_value = ok_value


def fv_apply(f, *args):
    """
    Apply the concrete function f leaf-wise over finite choices.  Raises LeafRaise when f
    raises on some combinations (the executor turns that into a fork).
    """
    conv = []
    for a in args:
        if isinstance(a, SBool):
            a = bool_node(a.z)
        elif isinstance(a, (SStr, SInt, SMap, SSeq)):
            raise UnsupportedOp("abstract value in a leaf-wise application: %r" % (a,))
        conv.append(a)
    try:
        r = fd.apply(f, *conv)
    except fd.TooBig as e:
        raise TooManyLeaves(str(e))
    except fd.ApplyRaise as ar:
        raise LeafRaise([(e, bool_of_node(sel)) for e, sel in ar.exc], ar.ok)
    if isinstance(r, fd.Node) and len(r.values) == 2 and all(isinstance(v, bool) for v in r.values):
        return SBool(bool_of_node(fd.normalize_bool(r)))
    return r


def fv_guard_of(v, pred):
    """z3 condition under which the (possibly finite-choice) value satisfies the concrete pred"""
    if isinstance(v, fd.Node):
        return bool_of_node(fd.apply(lambda x: bool(pred(x)), v))
    return _or([g for g, x in leaves_of(v) if pred(x)])


_STRFV = {}


def str_to_fv(v, domain):
    """abstract string known to range over `domain` (list of concrete strs) -> finite choice"""
    if isinstance(v, str):
        return v
    if isinstance(v, FV):
        return v
    k = (v.z.get_id(), tuple(domain))
    r = _STRFV.get(k)
    if r is None:
        n = fd.Node(list(domain), (), None)
        bs = n.guards()
        n.zdefs = [b == (v.z == lit(d)) for b, d in zip(bs, domain)]
        r = (n, v.z)
        _STRFV[k] = r
    return r[0]


def fv_to_z3(v, conv):
    """nested ITE term for a finite choice; conv maps a concrete leaf to a z3 term"""
    ls = leaves_of(v)
    t = conv(ls[-1][1])
    for g, x in reversed(ls[:-1]):
        t = z3.If(g, conv(x), t)
    return t


def eq_z3(a, b):
    """z3 formula: values a and b (concrete / finite choice / SStr / SBool) are equal"""
    if isinstance(a, (SStr,)) or isinstance(b, (SStr,)):
        if isinstance(a, FV) or isinstance(b, FV):
            fa = a if isinstance(a, FV) else None
            other = b if fa is not None else a
            fv = fa if fa is not None else b
            return _or([_and([g, eq_z3(x, other)]) for g, x in fv.leaves])
        if isinstance(a, (str, SStr)) and isinstance(b, (str, SStr)):
            return z3.simplify(str_z(a) == str_z(b))
        return _FALSE
    if isinstance(a, SInt) or isinstance(b, SInt):
        if isinstance(a, FV) or isinstance(b, FV):
            fv, other = (a, b) if isinstance(a, FV) else (b, a)
            return _or([_and([g, eq_z3(x, other)]) for g, x in fv.leaves])
        if not isinstance(a, (int, SInt)) or not isinstance(b, (int, SInt)) or isinstance(a, bool) or isinstance(b, bool):
            return _FALSE
        za = a.z if isinstance(a, SInt) else z3.IntVal(a)
        zb = b.z if isinstance(b, SInt) else z3.IntVal(b)
        return z3.simplify(za == zb)
    if isinstance(a, (FV, SBool)) or isinstance(b, (FV, SBool)):
        r = fv_apply(concrete_eq, a, b)
        if isinstance(r, SBool):
            return r.z
        return _TRUE if r else _FALSE
    return _TRUE if concrete_eq(a, b) else _FALSE


def concrete_eq(x, y):
    """Python == on concrete leaves, with DI standing for Decimal and Fractions for numbers"""
    if isinstance(x, DI) or isinstance(y, DI):
        xv = _num(x)
        yv = _num(y)
        if xv is None or yv is None:
            return False
        if isinstance(xv, tuple) or isinstance(yv, tuple):
            c = di_cmp(_as_di(x), _as_di(y))
            return c == 0
        return xv == yv
    if isinstance(x, (list, tuple)) and isinstance(y, (list, tuple)):
        return (
            type(x) is type(y)
            and len(x) == len(y)
            and all(concrete_eq(p, q) for p, q in zip(x, y))
        )
    try:
        return bool(x == y)
    except Exception:
        return False


def _as_di(x):
    if isinstance(x, DI):
        return x
    if isinstance(x, bool):
        return DI(int(x), scale=0)
    if isinstance(x, int):
        return DI(x, scale=0)
    if isinstance(x, Fraction):
        return DI(x, x, scale=0)
    if isinstance(x, float):
        return di_from_float(x)
    raise TypeError("no numeric view of %r" % (x,))


def _num(x):
    if isinstance(x, DI):
        return x.lo if x.lo == x.hi else (x.lo, x.hi)
    if isinstance(x, bool):
        return Fraction(int(x))
    if isinstance(x, (int, Fraction)):
        return Fraction(x)
    if isinstance(x, float):
        if x != x or x in (float("inf"), float("-inf")):
            return None
        return Fraction(x)
    return None


class _Other(object):
    """stands for 'any string other than the listed literals'"""

    def __repr__(self):
        return "<other>"


OTHER = _Other()


def finitize_str(v, cands):
    """abstract string -> finite choice over the given literals plus OTHER"""
    if not isinstance(v, SStr):
        return v
    cands = list(cands)
    k = (v.z.get_id(), tuple(cands), "other")
    r = _STRFV.get(k)
    if r is None:
        n = fd.Node(cands + [OTHER], (), None)
        bs = n.guards()
        eqs = [z3.simplify(v.z == lit(d)) for d in cands]
        n.zdefs = [b == e for b, e in zip(bs, eqs)] + [bs[-1] == z3.Not(_or(eqs))]
        r = (n, v.z)
        _STRFV[k] = r
    return r[0]


# --------------------------------------------------------------------------------------------
# symbolic containers / objects


class SMap(object):
    """symbolic dict str -> str: z3 arrays dom (Bool) and val (Str); mutable holder"""

    def __init__(self, dom, val, owner=None, name="map"):
        self.dom = dom
        self.val = val
        self.owner = owner
        self.name = name
        self.ghost = {}  # name -> z3 array, updated by contract hooks

    def copy(self):
        m = SMap(self.dom, self.val, None, self.name + "'")
        m.ghost = dict(self.ghost)
        return m

    def has(self, k):
        return z3.simplify(z3.Select(self.dom, str_z(k)))

    def get(self, k):
        return z3.simplify(z3.Select(self.val, str_z(k)))

    def store(self, k, v):
        kz = str_z(k)
        self.dom = z3.Store(self.dom, kz, z3.BoolVal(True))
        self.val = z3.Store(self.val, kz, str_z(v))

    @staticmethod
    def fresh(name):
        dom = z3.Array(name + "!dom", StrSort, z3.BoolSort())
        val = z3.Array(name + "!val", StrSort, StrSort)
        return SMap(dom, val, None, name)

    @staticmethod
    def empty(name="map"):
        return SMap(z3.K(StrSort, z3.BoolVal(False)), z3.K(StrSort, lit("")), None, name)


class SSeq(object):
    """symbolic list of abstract strings: z3 array Int -> Str and a length"""

    def __init__(self, arr, length, name="seq"):
        self.arr = arr
        self.length = length
        self.name = name

    def at(self, i):
        iz = i.z if isinstance(i, SInt) else (i if z3.is_expr(i) else z3.IntVal(i))
        if callable(self.arr):
            return self.arr(iz)
        return z3.Select(self.arr, iz)


class SObj(object):
    """instance of a class under verification"""

    def __init__(self, cls, fields=None):
        self.cls = cls
        self.fields = fields if fields is not None else {}
        self.written = set()

    def __repr__(self):
        return "<SObj %s>" % (getattr(self.cls, "name", self.cls),)


_fresh_counter = itertools.count()


def reset_fd():
    """forget all finite-domain nodes (called at the start of every path)"""
    fd.reset()
    _BRIDGE.clear()
    _STRFV.clear()
    TERM_REG.clear()
    from . import strings as _S

    _S.ABSTRACT.clear()
    _S.EQ_REG.clear()


def fresh_name(prefix):
    return "%s!%d" % (prefix, next(_fresh_counter))


def fresh_str(prefix="s"):
    return SStr(z3.Int(fresh_name(prefix)))


def fresh_bool(prefix="b"):
    return SBool(z3.Bool(fresh_name(prefix)))


def fresh_int(prefix="i"):
    return SInt(z3.Int(fresh_name(prefix)))
