"""
pyvc.strings -- abstract strings: uninterpreted functions standing for `str` methods.

Assumed contracts (trusted base A1; every axiom instance that is actually added to a path is
produced by one of the functions below and cross-checked against host CPython by
pyvc.selftest on exhaustive small strings):

  split(s, c)           nparts(s,c) >= 1 ; part(s,c,i) for 0 <= i < nparts
  s.endswith(c)         =>  part(s, c, nparts-1) == ""                       (c one character)
  s == ""               <=> nparts(s,c) == 1 /\ part(s,c,0) == ""  (one direction used: s=="" => ...)
  s.startswith(p + c)   <=> nparts(s,c) >= 2 /\ part(s,c,0) == p             (c not in p)
  split(s, c, 1)        has 2 parts iff c occurs in s iff nparts(s,c) >= 2;
                        head == part(s,c,0); split(tail, c) == split(s, c)[1:]
  ground instances      every application to literal arguments is evaluated by host CPython
"""
from __future__ import annotations

import z3

from .sym import INTERN, SInt, SSeq, SStr, StrSort, lit, mk_bool, mk_str, str_z, SBool, FV, _and, _or

I = z3.IntSort()
B = z3.BoolSort()

f_concat = z3.Function("concat", StrSort, StrSort, StrSort)
f_upper = z3.Function("upper", StrSort, StrSort)
f_lower = z3.Function("lower", StrSort, StrSort)
f_strip = z3.Function("strip", StrSort, StrSort)
f_startswith = z3.Function("startswith", StrSort, StrSort, B)
f_endswith = z3.Function("endswith", StrSort, StrSort, B)
f_contains = z3.Function("contains", StrSort, StrSort, B)
f_nparts = z3.Function("nparts", StrSort, StrSort, I)
f_part = z3.Function("part", StrSort, StrSort, I, StrSort)
f_tail1 = z3.Function("tail1", StrSort, StrSort, StrSort)  # s.split(c, 1)[1]
f_hash = z3.Function("pyhash", StrSort, I)
f_numeric = z3.Function("float_ok", StrSort, B)  # float(s) does not raise ValueError
f_fval = z3.Function("float_val", StrSort, z3.RealSort())
f_fnan = z3.Function("float_nonfinite", StrSort, B)
f_replace = z3.Function("replace", StrSort, StrSort, StrSort, StrSort)
f_strlist_nil = None


def conc(v):
    return isinstance(v, str)


class JoinPiece(object):
    """sep.join(items) where items = [(guard z3 Bool, element)], elements str / finite choice / abstract"""

    def __init__(self, sep, items):
        self.sep = sep
        self.items = list(items)


ABSTRACT = {}  # id of the abstract term of a structured string -> (term, SCat)
EQ_REG = {}    # id of an abstract equality between strings -> (term, left, right)


def involves_abstract(terms, budget=400000):
    """does one of the z3 terms contain the abstract term of a structured string?"""
    if not ABSTRACT:
        return False
    seen = set()
    stack = list(terms)
    while stack:
        t = stack.pop()
        k = t.get_id()
        if k in seen:
            continue
        seen.add(k)
        if k in ABSTRACT:
            return True
        if len(seen) > budget:
            return True
        if z3.is_quantifier(t):
            stack.append(t.body())
        else:
            stack.extend(t.children())
    return False


def concrete_under(s, model):
    """the Python string a (structured / finite-choice / concrete / abstract) string denotes
    under a z3 model, or None when the model does not determine it"""
    from .sym import FV, lit_value, is_lit

    def ev(g):
        v = model.eval(g, model_completion=True)
        return True if z3.is_true(v) else False if z3.is_false(v) else None

    def piece(p):
        if conc(p):
            return p
        if isinstance(p, FV):
            vals = [v for g, v in zip(p.guards(), p.values) if ev(g) is True]
            return vals[0] if len(vals) == 1 and isinstance(vals[0], str) else None
        if isinstance(p, SCat):
            return whole(p)
        if isinstance(p, SStr):
            v = model.eval(p.z, model_completion=True)
            if z3.is_int_value(v):
                return INTERN.decode(v.as_long())
        return None

    def whole(x):
        out = []
        for p in _parts(x):
            if isinstance(p, JoinPiece):
                if not conc(p.sep):
                    return None
                items = []
                for g, e in p.items:
                    t = ev(g)
                    if t is None:
                        return None
                    if t:
                        c = piece(e)
                        if c is None:
                            return None
                        items.append(c)
                out.append(p.sep.join(items))
            else:
                c = piece(p)
                if c is None:
                    return None
                out.append(c)
        return "".join(out)

    return whole(s)


class SCat(SStr):
    """
    structured symbolic string: the concatenation of pieces, each piece a concrete str, a
    finite choice of strs, an abstract string or a JoinPiece.  It is an SStr (it has a z3 term,
    built lazily from the uninterpreted string functions) whose structure stays visible to
    contracts and to the structural equality rule (L-join-inj).
    """

    __slots__ = ("parts", "_z")

    def __init__(self, parts):
        self.parts = parts
        self._z = None

    @property
    def z(self):
        if self._z is None:
            terms = []
            for p in self.parts:
                if isinstance(p, JoinPiece):
                    terms.append(f_join(str_z(p.sep), glist_term(p.items)))
                else:
                    terms.append(str_z(p))
            acc = terms[-1]
            for t in reversed(terms[:-1]):
                acc = f_concat(t, acc)
            self._z = z3.simplify(acc)
            # the abstract term knows nothing about the structure: a counter-model that involves
            # it must be confirmed on the structure (PathState._prove_one) before it is believed
            ABSTRACT[self._z.get_id()] = (self._z, self)
        return self._z

    def __repr__(self):
        return "SCat(%d parts)" % len(self.parts)


def _parts(v):
    if isinstance(v, SCat):
        return list(v.parts)
    return [v]


def concat(a, b):
    if conc(a) and conc(b):
        return a + b
    if conc(a) and a == "":
        return b
    if conc(b) and b == "":
        return a
    from .sym import FV

    if isinstance(a, FV) and isinstance(b, FV) or (isinstance(a, FV) and conc(b)) or (conc(a) and isinstance(b, FV)):
        from .sym import fv_apply

        try:
            if len(getattr(a, "values", [0])) * len(getattr(b, "values", [0])) <= 4096:
                return fv_apply(lambda x, y: x + y, a, b)
        except Exception:
            pass
    pa, pb = _parts(a), _parts(b)
    if pa and pb and conc(pa[-1]) and conc(pb[0]):
        pa = pa[:-1] + [pa[-1] + pb[0]]
        pb = pb[1:]
    parts = [p for p in pa + pb if not (conc(p) and p == "")]
    if len(parts) == 1 and not isinstance(parts[0], JoinPiece):
        return parts[0]
    return SCat(parts)


def concat_all(parts):
    if not parts:
        return ""
    acc = parts[0]
    for p in parts[1:]:
        acc = concat(acc, p)
    return acc


def distribute(uf, pyfn, z, depth=0):
    """uf(z) for a pure str -> str function: pushed through if-then-else and evaluated by the
    host at literal leaves (uf(ite(c, a, b)) = ite(c, uf(a), uf(b)); uf("lit") = "lit".pyfn())"""
    from .sym import is_lit, lit_value

    if is_lit(z):
        return lit(pyfn(lit_value(z)))
    if z3.is_app_of(z, z3.Z3_OP_ITE) and depth < 30:
        return z3.If(z.arg(0), distribute(uf, pyfn, z.arg(1), depth + 1), distribute(uf, pyfn, z.arg(2), depth + 1))
    return uf(z)


def upper(s):
    if conc(s):
        return s.upper()
    return mk_str(distribute(f_upper, str.upper, s.z))


def lower(s):
    if conc(s):
        return s.lower()
    return mk_str(distribute(f_lower, str.lower, s.z))


_PURE = {}


def pure_method(s, name):
    """any other argument-free str -> str method: an uninterpreted function of the string"""
    if conc(s):
        return getattr(s, name)()
    f = _PURE.get(name)
    if f is None:
        f = _PURE[name] = z3.Function("str_" + name, StrSort, StrSort)
    return mk_str(distribute(f, lambda x: getattr(x, name)(), s.z))


def strip(s):
    if conc(s):
        return s.strip()
    return mk_str(distribute(f_strip, str.strip, s.z))


def startswith(s, p):
    if conc(s) and conc(p):
        return s.startswith(p)
    return mk_bool(f_startswith(str_z(s), str_z(p)))


def endswith(s, p):
    if conc(s) and conc(p):
        return s.endswith(p)
    return mk_bool(f_endswith(str_z(s), str_z(p)))


def contains(s, sub):
    return f_contains(str_z(s), str_z(sub))


def pyhash(s):
    return SInt(f_hash(str_z(s)))


def maps_agree(a, b):
    k = z3.Int("k!agree")
    return z3.ForAll([k], z3.Implies(z3.Select(a.dom, k), z3.Select(a.val, k) == z3.Select(b.val, k)))


class SplitResult(object):
    """result of s.split(sep) / s.split(sep, 1) on an abstract string s; `offset` = [offset:]"""

    def __init__(self, s, sep, maxsplit=None, offset=0):
        self.s = s
        self.sep = sep
        self.maxsplit = maxsplit
        self.offset = offset

    # facts (axiom instances) that hold for this split term; added to the path on creation
    def facts(self):
        sz, cz = str_z(self.s), lit(self.sep)
        n = f_nparts(sz, cz)
        out = [n >= 1]
        if len(self.sep) == 1:
            out.append(z3.Implies(f_endswith(sz, cz), f_part(sz, cz, n - 1) == lit("")))
            out.append(z3.Implies(sz == lit(""), z3.And(n == 1, f_part(sz, cz, 0) == lit(""))))
            out.append(f_contains(sz, cz) == (n >= 2))
        return out

    def nparts(self):
        sz, cz = str_z(self.s), lit(self.sep)
        n = f_nparts(sz, cz)
        if self.maxsplit == 1:
            return z3.If(n >= 2, z3.IntVal(2), z3.IntVal(1))
        return n

    def length(self):
        return self.nparts() - self.offset

    def len_is(self, k):
        return z3.simplify(self.length() == k)

    def part(self, i):
        """i-th element of the (offset) result, i a Python int"""
        sz, cz = str_z(self.s), lit(self.sep)
        j = i + self.offset
        if self.maxsplit == 1:
            if j == 0:
                return mk_str(f_part(sz, cz, 0))
            if j == 1:
                return mk_str(f_tail1(sz, cz))
            raise IndexError(i)
        return mk_str(f_part(sz, cz, z3.IntVal(j)))

    def tail(self, lo):
        if self.maxsplit is not None:
            raise NotImplementedError("slice of a maxsplit result")
        return SplitResult(self.s, self.sep, None, self.offset + lo)

    def index(self, k, st):
        from .interp import PyRaise

        n = self.length()
        inb = z3.And(k >= -n, k < n) if k < 0 else (n > k)
        if not st.decide(z3.simplify(inb), "IndexError?"):
            raise PyRaise(IndexError, ())
        if k < 0:
            raise NotImplementedError("negative index into abstract split")
        return self.part(k)

    def as_seq_or_list(self, st):
        if self.maxsplit is not None:
            raise NotImplementedError("iteration over maxsplit result")
        sz, cz = str_z(self.s), lit(self.sep)
        off = self.offset
        return SSeq(lambda i: f_part(sz, cz, i + off), self.length(), "split")


def seq_of_split(sr):
    sz, cz = str_z(sr.s), lit(sr.sep)
    off = sr.offset
    return SSeq(lambda i: f_part(sz, cz, i + off), sr.length(), "split")


def split(s, sep, maxsplit, st):
    """s.split(sep[, maxsplit]) for an abstract s and a literal sep"""
    sr = SplitResult(s, sep, maxsplit)
    for f in sr.facts():
        st.assume(f)
    return sr


def startswith_facts(s, p, sep):
    """instance of: s.startswith(p + sep) <=> nparts >= 2 /\ part0 == p   (sep not in p)"""
    assert sep not in p and len(sep) == 1
    sz, cz = str_z(s), lit(sep)
    return [
        f_startswith(sz, lit(p + sep))
        == z3.And(f_nparts(sz, cz) >= 2, f_part(sz, cz, 0) == lit(p))
    ]


def tail1_facts(s, sep):
    """split(s, c, 1)[1] splits into the remaining parts of split(s, c)"""
    sz, cz = str_z(s), lit(sep)
    t = f_tail1(sz, cz)
    i = z3.Int("i!t1")
    n = f_nparts(sz, cz)
    return [
        z3.Implies(n >= 2, f_nparts(t, cz) == n - 1),
        z3.ForAll(
            [i],
            z3.Implies(z3.And(n >= 2, i >= 0, i < n - 1), f_part(t, cz, i) == f_part(sz, cz, i + 1)),
            patterns=[f_part(t, cz, i)],
        ),
    ]


def join(sep, items):
    """sep.join(items) for a Python list of concrete / finite-choice / abstract strings"""
    if not items:
        return ""
    if all(conc(x) for x in items) and conc(sep):
        return sep.join(items)
    if len(items) == 1:
        return items[0]
    return SCat([JoinPiece(sep, [(z3.BoolVal(True), x) for x in items])])


# guarded lists: join is a fold of conditional snoc operations over an abstract list sort
ListSort = z3.DeclareSort("StrList")
l_nil = z3.Const("nil", ListSort)
f_snoc = z3.Function("snoc", ListSort, StrSort, ListSort)
f_join = z3.Function("join", StrSort, ListSort, StrSort)


def glist_term(items):
    t = l_nil
    for g, x in items:
        if z3.is_true(g):
            t = f_snoc(t, str_z(x))
        else:
            t = z3.If(g, f_snoc(t, str_z(x)), t)
    return t


def join_glist(sep, items):
    return SCat([JoinPiece(sep, list(items))])


def possible_values(x):
    """finite set of concrete strings a piece element may take, or None if unbounded"""
    from .sym import FV

    if conc(x):
        return {x}
    if isinstance(x, FV) and all(isinstance(v, str) for v in x.values):
        return set(x.values)
    return None


def _shape_ok(parts):
    """the side conditions of L-join-inj on one structured string"""
    for k, x in enumerate(parts):
        if isinstance(x, JoinPiece):
            if not conc(x.sep) or not x.sep:
                return False
            sets = []
            for _, e in x.items:
                pv = possible_values(e)
                if pv is None or any((v == "" or x.sep in v) for v in pv):
                    return False
                sets.append(pv)
            for i in range(len(sets)):
                for j in range(i + 1, len(sets)):
                    if sets[i] & sets[j]:
                        return False
            if k != len(parts) - 1:
                nxt = parts[k + 1]
                if not (conc(nxt) and nxt) or nxt[0] in x.sep or any(nxt[0] in v for pv in sets for v in pv):
                    return False
        else:
            pv = possible_values(x)
            if pv is None:
                return False
            u = sorted(pv)
            if any(p != q and q.startswith(p) for p in u for q in u):
                return False
    return True


def _match_concrete(c, parts):
    """cut the concrete string c along `parts` (whose shape is ok): a list of pieces of the same
    kinds, False when c cannot be a value of the structure, None when undecided"""
    rest = c
    out = []
    for k, x in enumerate(parts):
        if isinstance(x, JoinPiece):
            if k == len(parts) - 1:
                seg, rest = rest, ""
            else:
                i = rest.find(parts[k + 1][0])
                if i < 0:
                    return False
                seg, rest = rest[:i], rest[i:]
            strs = seg.split(x.sep) if seg != "" else []
            items = []
            j = 0
            for _, e in x.items:
                pv = possible_values(e)
                if j < len(strs) and strs[j] in pv:
                    items.append((z3.BoolVal(True), strs[j]))
                    j += 1
                else:
                    items.append((z3.BoolVal(False), sorted(pv)[0]))
            if j != len(strs):
                return False
            out.append(JoinPiece(x.sep, items))
        else:
            pv = possible_values(x)
            cands = [v for v in pv if rest.startswith(v)]
            if not cands:
                return False
            v = max(cands, key=len)
            out.append(v)
            rest = rest[len(v):]
    if rest:
        return False
    return out


def _canon_parts(parts):
    """normal form of a piece list: the common prefix / suffix of a finite-choice text piece is
    moved into the neighbouring concrete text and adjacent concrete pieces are merged, so that
    two ways of cutting the same text into pieces compare piece by piece"""
    import os.path

    from .sym import FV, fv_apply

    out = []
    for p in parts:
        if isinstance(p, FV) and len(p.values) >= 2 and all(isinstance(v, str) for v in p.values):
            vals = list(p.values)
            pre = os.path.commonprefix(vals)
            rest = [v[len(pre):] for v in vals]
            suf = os.path.commonprefix([v[::-1] for v in rest])[::-1]
            if pre or suf:
                a, b = len(pre), len(suf)
                try:
                    core = fv_apply(lambda x, a=a, b=b: x[a:len(x) - b] if b else x[a:], p)
                except Exception:  # noqa
                    out.append(p)
                    continue
                out.extend([pre, core, suf])
                continue
        out.append(p)
    merged = []
    for p in out:
        if conc(p):
            if p == "":
                continue
            if merged and conc(merged[-1]):
                merged[-1] = merged[-1] + p
                continue
        merged.append(p)
    return merged


def structural_eq(a, b, eq_elem):
    """
    Equality of two structured strings by rule L-join-inj: two strings built as
    <piece><piece>... with the same piece kinds are equal iff corresponding pieces are equal,
    provided the split points are unambiguous.  Implemented for the shapes the library builds:
    [prefix-choice] + [join of conditional elements]: equal iff prefixes are equal and, position
    by position, the guards agree and guarded elements are equal.  Side conditions (checked on
    the concrete leaf sets, else None is returned and the caller falls back to abstract
    equality): elements are non-empty, contain no separator, the sets of possible elements at
    different positions are pairwise disjoint, every prefix value ends with a character
    sequence that no element/suffix can extend ambiguously (the possible values of a text piece
    form a prefix-free set).
    Returns a z3 Boolean or None.
    """
    if conc(a) and conc(b):
        return z3.BoolVal(a == b)
    if conc(b) and not conc(a):
        a, b = b, a
    pb = _canon_parts(_parts(b))
    if conc(a):
        # a concrete string against a structured one: the concrete string is cut along the
        # structure (unambiguous under the side conditions, which are checked on b's shape)
        if not _shape_ok(pb):
            return None
        pa = _match_concrete(a, pb)
        if pa is None:
            return None
        if pa is False:
            return z3.BoolVal(False)
    else:
        pa = _canon_parts(_parts(a))
    if len(pa) != len(pb):
        return None
    conj = []
    for x, y in zip(pa, pb):
        if isinstance(x, JoinPiece) != isinstance(y, JoinPiece):
            return None
        if isinstance(x, JoinPiece):
            if x.sep != y.sep or not conc(x.sep) or len(x.items) != len(y.items):
                return None
            sets = []
            for (g1, e1), (g2, e2) in zip(x.items, y.items):
                s1, s2 = possible_values(e1), possible_values(e2)
                if s1 is None or s2 is None:
                    return None
                u = s1 | s2
                if any((v == "" or x.sep in v) for v in u):
                    return None
                sets.append(u)
                conj.append(g1 == g2)
                conj.append(z3.Implies(g1, eq_elem(e1, e2)))
            for i in range(len(sets)):
                for k in range(i + 1, len(sets)):
                    if sets[i] & sets[k]:
                        return None
        else:
            s1, s2 = possible_values(x), possible_values(y)
            if s1 is None or s2 is None:
                return None
            u = sorted(s1 | s2)
            # the piece must be uniquely delimited: no possible value is a proper prefix of another
            if any(a != b and b.startswith(a) for a in u for b in u):
                return None
            conj.append(eq_elem(x, y))
    # a join piece must be last, or be followed by a concrete text whose first character occurs
    # in no element and not in the separator (then the end of the join is unambiguous)
    for side in (pa, pb):
        for k, x in enumerate(side):
            if isinstance(x, JoinPiece) and k != len(side) - 1:
                nxt = side[k + 1]
                if not (conc(nxt) and nxt):
                    return None
                ch = nxt[0]
                if ch in x.sep:
                    return None
                for _, e in x.items:
                    pv = possible_values(e)
                    if pv is None or any(ch in v for v in pv):
                        return None
    return z3.And(*conj) if conj else z3.BoolVal(True)


def fmt(template, args, kwargs, to_str):
    """str.format with positional/auto-numbered/keyword fields and no format specs"""
    import string

    parts = []
    auto = 0
    for literal, field, spec, conv in string.Formatter().parse(template):
        if literal:
            parts.append(literal)
        if field is None:
            continue
        if spec or conv not in (None, "s"):
            raise NotImplementedError("format spec/conversion")
        if field == "":
            v = args[auto]
            auto += 1
        elif field.isdigit():
            v = args[int(field)]
        elif field.isidentifier():
            v = kwargs[field]
        else:
            raise NotImplementedError("format field %r" % field)
        parts.append(to_str(v))
    return concat_all(parts)


def decode_model_value(v):
    if z3.is_int_value(v):
        n = v.as_long()
        s = INTERN.decode(n)
        return {"int": n, "str": s}
    if z3.is_true(v):
        return True
    if z3.is_false(v):
        return False
    if z3.is_rational_value(v):
        return str(v)
    return str(v)


# ---------------------------------------------------------------------------------------------
# operations on structured strings (used when the library re-parses a string it emitted)


def _text_values(p):
    return possible_values(p)


def _surely_nonempty_join(jp):
    return any(z3.is_true(g) for g, _ in jp.items)


def scat_is_empty(s):
    """True / False when decided by the structure, else None"""
    for p in _parts(s):
        if isinstance(p, JoinPiece):
            if _surely_nonempty_join(p):
                return False
        else:
            pv = _text_values(p)
            if pv is not None and all(v != "" for v in pv):
                return False
    return None


def scat_empty_z(s):
    """z3 condition under which a structured string is empty; None when the structure does not
    decide it (an element that may itself be empty, an abstract piece)"""
    from .sym import FV, fv_guard_of

    conj = []
    for p in _parts(s):
        if isinstance(p, JoinPiece):
            for g, e in p.items:
                pv = possible_values(e)
                if pv is None or any(v == "" for v in pv):
                    return None
            conj.append(z3.Not(_or([g for g, _ in p.items])) if p.items else z3.BoolVal(True))
        elif conc(p):
            conj.append(z3.BoolVal(p == ""))
        elif isinstance(p, FV):
            conj.append(fv_guard_of(p, lambda x: x == ""))
        else:
            return None
    return _and(conj) if conj else z3.BoolVal(True)


def scat_endswith(s, c):
    parts = _parts(s)
    last = parts[-1]
    if isinstance(last, JoinPiece):
        if not _surely_nonempty_join(last):
            return None
        for _, e in last.items:
            pv = possible_values(e)
            if pv is None or any(v == "" or v.endswith(c) for v in pv):
                return None
        return False
    pv = _text_values(last)
    if pv is None or any(v == "" for v in pv):
        return None
    r = {v.endswith(c) for v in pv}
    return r.pop() if len(r) == 1 else None


def scat_startswith(s, p):
    from .sym import FV, fv_apply

    first = _parts(s)[0]
    if isinstance(first, JoinPiece):
        return None
    pv = _text_values(first)
    if pv is None:
        return None
    if all(len(v) >= len(p) for v in pv):
        return fv_apply(lambda x: x.startswith(p), first) if isinstance(first, FV) else first.startswith(p)
    if all((len(v) < len(p) and not p.startswith(v)) or (len(v) >= len(p)) for v in pv):
        return fv_apply(lambda x: x.startswith(p), first) if isinstance(first, FV) else first.startswith(p)
    return None


def _normalize(parts, sep):
    """merge  Join(sep) + sep + Join(sep)  and  text ending with sep + Join(sep)  shapes into
    (text piece or None, list of (guard, element)) -- None when the shape is not recognised"""
    from .sym import FV, fv_apply

    text = None
    items = []
    pending_sep = False
    seen_join = False
    for p in parts:
        if isinstance(p, JoinPiece):
            if p.sep != sep or not _surely_nonempty_join(p):
                return None
            if seen_join and not pending_sep:
                return None
            items.extend(p.items)
            seen_join = True
            pending_sep = False
        else:
            if seen_join:
                if conc(p) and p == sep and not pending_sep:
                    pending_sep = True
                    continue
                return None
            if conc(p) and p == "":
                continue
            if text is None:
                text = p
            else:
                pv1, pv2 = _text_values(text), _text_values(p)
                if pv1 is None or pv2 is None:
                    return None
                text = fv_apply(lambda a, b: a + b, text, p)
    if pending_sep:
        return None
    return text, items


def scat_split(s, sep):
    """list of (guard, part) of s.split(sep), or None"""
    from .sym import FV, fv_apply

    n = _normalize(_parts(s), sep)
    if n is None:
        return None
    text, items = n
    for _, e in items:
        pv = possible_values(e)
        if pv is None or any(sep in v for v in pv):
            return None
    out = []
    if text is not None:
        pv = _text_values(text)
        if pv is None:
            return None
        if items:
            if not all(v.endswith(sep) for v in pv):
                return None
            counts = {len(v.split(sep)) for v in pv}
            if len(counts) != 1:
                return None
            k = counts.pop() - 1  # the last (empty) part is taken by the first item
            for i in range(k):
                part = fv_apply(lambda x, i=i: x.split(sep)[i], text) if isinstance(text, FV) else text.split(sep)[i]
                out.append((z3.BoolVal(True), part))
        else:
            counts = {len(v.split(sep)) for v in pv}
            if len(counts) != 1:
                return None
            for i in range(counts.pop()):
                part = fv_apply(lambda x, i=i: x.split(sep)[i], text) if isinstance(text, FV) else text.split(sep)[i]
                out.append((z3.BoolVal(True), part))
    out.extend(items)
    return out


def scat_split1(s, sep):
    """(head, tail) of s.split(sep, 1) when the first piece surely contains sep, else None"""
    from .sym import FV, fv_apply

    parts = _parts(s)
    first = parts[0]
    if isinstance(first, JoinPiece):
        return None
    pv = _text_values(first)
    if pv is None or not all(sep in v for v in pv):
        return None
    if isinstance(first, FV):
        head = fv_apply(lambda x: x.split(sep, 1)[0], first)
        rest = fv_apply(lambda x: x.split(sep, 1)[1], first)
    else:
        head, rest = first.split(sep, 1)
    if len(parts) == 1:
        return head, rest
    pieces = ([] if (conc(rest) and rest == "") else [rest]) + parts[1:]
    tail = SCat(pieces)
    return head, tail
