"""
pyvc.interp -- symbolic executor over the `ast` of the real functions.

Forward symbolic execution with path splitting by *decision replay*: a path is identified by
the list of boolean decisions taken at symbolic branch points; the executor re-runs the
function from its entry for every path (functions are small), consulting the solver for the
feasibility of both sides of every new decision.  Simple conditionals are *merged* instead of
forked (guarded execution with an undo log), so loops over the code's constant tables with
conditional effects stay on one path.

Every operation that can raise in CPython raises the corresponding exception symbolically
(class + path condition); whether it may escape is decided by the function's contract.
"""
from __future__ import annotations

import ast
import os
import builtins
import collections
import copy as _copy
import decimal
import itertools
import operator
from fractions import Fraction

import z3

from . import strings as S
from .source import sources, CODE_MODULES, DATA_MODULES
from .sym import (
    DI,
    FV,
    LeafRaise,
    NumericUndecided,
    SBool,
    SInt,
    SMap,
    SObj,
    SSeq,
    SStr,
    TooManyLeaves,
    UnsupportedOp,
    _and,
    _as_di,
    _or,
    bool_z,
    concrete_eq,
    di_add,
    di_cmp,
    di_from_float,
    di_max,
    di_min,
    di_mul,
    di_neg,
    di_pow,
    di_quantize,
    di_to_float,
    eq_z3,
    fresh_bool,
    fresh_int,
    fresh_name,
    fresh_str,
    fv_apply,
    fv_guard_of,
    finitize_str,
    bool_node,
    bool_of_node,
    OTHER,
    is_sym,
    leaves_of,
    lit,
    mk_bool,
    mk_str,
    regroup,
    str_z,
    vkey,
)
from . import fd

# --------------------------------------------------------------------------------------------
# control-flow signals


class PyRaise(Exception):
    """a Python exception raised by the code under verification (symbolically)"""

    def __init__(self, exc_cls, args=(), note=""):
        Exception.__init__(self, "%s%s" % (getattr(exc_cls, "__name__", exc_cls), args))
        self.exc_cls = exc_cls
        self.exc_args = tuple(args)
        self.note = note


class ReturnSig(Exception):
    def __init__(self, value):
        Exception.__init__(self)
        self.value = value


class BreakSig(Exception):
    pass


class ContinueSig(Exception):
    pass


class PathCut(Exception):
    """the path ends here by construction (inductive step closed, contract says unreachable)"""


class Unsupported(UnsupportedOp):
    """construct outside the supported subset: the function's obligations become undecided"""


SECOND_OPINION = os.environ.get("PYVC_SECOND_OPINION") == "1"
CVC5 = "/usr/bin/cvc5"
SECOND_OPINION_BUDGET_S = 200  # per unit


def _pb_to_arith(text):
    """z3 prints exactly-k constraints as ((_ pbeq k c1 .. cn) a1 .. an), which is not SMT-LIB:
    rewritten to (= (+ (ite a1 c1 0) .. (ite an cn 0)) k) for the second solver"""
    out = []
    i = 0
    key = "((_ pbeq "
    while True:
        j = text.find(key, i)
        if j < 0:
            out.append(text[i:])
            break
        out.append(text[i:j])
        k = text.index(")", j)
        nums = text[j + len(key):k].split()
        bound, coeffs = nums[0], nums[1:]
        pos = k + 1
        args = []
        while len(args) < len(coeffs):
            while text[pos].isspace():
                pos += 1
            start = pos
            if text[pos] == "(":
                depth = 0
                while True:
                    ch = text[pos]
                    if ch == "|":
                        pos = text.index("|", pos + 1)
                    elif ch == "(":
                        depth += 1
                    elif ch == ")":
                        depth -= 1
                        if depth == 0:
                            break
                    pos += 1
                pos += 1
            elif text[pos] == "|":
                pos = text.index("|", pos + 1) + 1
            else:
                while not text[pos].isspace() and text[pos] not in "()":
                    pos += 1
            args.append(text[start:pos])
        while text[pos].isspace():
            pos += 1
        assert text[pos] == ")"
        terms = " ".join("(ite %s %s 0)" % (a, c) for a, c in zip(args, coeffs))
        out.append("(= (+ %s 0) %s)" % (terms, bound))
        i = pos + 1
    return "".join(out)


def second_opinion(smt2, stats, tlimit_ms=4000):
    """run cvc5 on a query z3 found unsat; returns 'unsat' | 'sat' | 'none' (no verdict)"""
    import subprocess

    so = stats.second
    if so.get("seconds", 0) > SECOND_OPINION_BUDGET_S:
        # the unit's budget for second opinions is spent: the remaining verdicts rest on z3 alone
        so["none"] = so.get("none", 0) + 1
        so["skipped_over_budget"] = so.get("skipped_over_budget", 0) + 1
        return "none"
    import time as _time

    _t0 = _time.time()
    try:
        p = subprocess.run([CVC5, "--lang=smt2", "--tlimit=%d" % tlimit_ms, "--full-saturate-quant"],
                           input="(set-logic ALL)\n" + _pb_to_arith(smt2), capture_output=True, text=True, timeout=tlimit_ms / 1000.0 + 5)
        out = p.stdout.strip().splitlines()
        v = out[0].strip() if out else "none"
    except Exception:  # noqa
        v = "none"
    if v not in ("sat", "unsat"):
        v = "none"
    so[v] = so.get(v, 0) + 1
    so["seconds"] = so.get("seconds", 0) + (_time.time() - _t0)
    return v


class Phi(object):
    """a local assigned a mutable object under merge guards: new under /\\ guards, else old"""

    __slots__ = ("guards", "new", "old")

    def __init__(self, guards, new, old):
        self.guards, self.new, self.old = guards, new, old


class NeedFork(Exception):
    """guarded (merging) execution met something that needs a real fork"""


class ExcValue(object):
    """an exception instance bound by `except E as e`"""

    def __init__(self, exc_cls, args):
        self.exc_cls = exc_cls
        self.args = tuple(args)

    def __repr__(self):
        return "<exc %s%r>" % (self.exc_cls.__name__, self.args)


class Unbound(object):
    def __repr__(self):
        return "<unbound>"


UNBOUND = Unbound()


# --------------------------------------------------------------------------------------------
# code objects


class PyFunc(object):
    def __init__(self, node, module, qualname, cls=None, closure=None, kind="function"):
        self.node = node
        self.module = module
        self.qualname = qualname
        self.cls = cls
        self.closure = closure  # enclosing Frame for nested defs
        self.kind = kind  # function | classmethod | staticmethod
        self.decorators = []

    @property
    def name(self):
        return self.node.name

    def __repr__(self):
        return "<PyFunc %s>" % self.qualname


class PyClass(object):
    def __init__(self, name, module, node):
        self.name = name
        self.module = module
        self.node = node
        self.methods = {}
        self.attrs = {}
        self.bases = []

    def lookup(self, name):
        if name in self.methods:
            return self.methods[name]
        if name in self.attrs:
            return self.attrs[name]
        for b in self.bases:
            if isinstance(b, PyClass):
                r = b.lookup(name)
                if r is not None:
                    return r
        return None

    def __repr__(self):
        return "<PyClass %s>" % self.name


class BoundMethod(object):
    def __init__(self, func, recv):
        self.func = func
        self.recv = recv


class HostMethod(object):
    """method of a modelled builtin type bound to a (possibly symbolic) receiver"""

    def __init__(self, recv, name):
        self.recv = recv
        self.name = name


class ModuleEnv(object):
    def __init__(self, name):
        self.name = name
        self.globals = {}
        self.global_ids = set()  # ids of mutable objects owned by module globals


class GList(object):
    """Python list whose elements were appended under merge guards: [(guard, elem)]"""

    def __init__(self, items=None):
        self.items = list(items or [])

    def truth_z(self):
        return _or([g for g, _ in self.items])


class OpaqueObjList(object):
    """
    a list of objects of unknown length (a loop-carried accumulator after havoc): supports
    membership tests (result unknown) and append; `on_append` lets a contract state what may be
    put into it
    """

    def __init__(self, name="list", on_append=None):
        self.name = name
        self.on_append = on_append
        self.appended = []


class Frame(object):
    def __init__(self, func, locals_, parent=None):
        self.func = func
        self.locals = locals_
        self.parent = parent  # closure chain


# --------------------------------------------------------------------------------------------
# result records


class Obligation(object):
    def __init__(self, name, status, detail=None, model=None, path=None, seconds=0.0, kind="vc"):
        self.name = name
        self.status = status  # discharged | refuted | unknown
        self.detail = detail
        self.model = model
        self.path = path
        self.seconds = seconds
        self.kind = kind
        self.backend = None
        self.grid = None


SOLVER_TIMEOUT_MS = 20000


class Stats(object):
    def __init__(self):
        self.checks = 0
        self.seconds = 0.0
        self.paths = 0
        self.fd_checks = 0
        self.fd = {}
        self.second = {}


# --------------------------------------------------------------------------------------------
# the per-path execution state


class PathState(object):
    def __init__(self, engine, trace, fresh=True):
        from .sym import reset_fd

        if fresh:
            # a new path starts from an empty finite-domain universe; the auxiliary state used
            # while a module is loaded in the middle of a path must not wipe the path's nodes
            reset_fd()
        self.engine = engine
        self.trace = list(trace)
        self.pos = 0
        self.alternatives = []
        self.solver = z3.Solver()
        self.solver.set("timeout", SOLVER_TIMEOUT_MS)
        self.pc = []
        self.guards = []  # active merge guards (z3 formulas)
        self.undo = None  # undo log while in guarded mode
        self.obligations = []
        self.events = []  # frame events: ('write', obj, field) / ('global-write', desc) ...
        self.stdout = []  # ghost stdout: list of values printed
        self.stdin_pos = 0
        self.notes = []
        self.ghost = {}
        self.defined = set()
        self.defs_incomplete = False
        self.container_base = {}
        self._pending = []
        self.z3_only = False
        self.fd_cons = []
        self._seen_terms = {}
        self._fdview = {}
        self.proved_ids = {}

    # -- solver interface -------------------------------------------------------------------
    def ensure_defs(self, formulas):
        """assert the definitions of every finite-domain node whose guards occur in formulas"""
        todo = []
        seen = self._seen_terms
        stack = [f for f in formulas if z3.is_expr(f)]
        while stack:
            t = stack.pop()
            k = t.get_id()
            if k in seen:
                continue
            seen[k] = t
            reg = fd.GUARD_REG.get(k)
            if reg is not None:
                todo.append(reg[0])
                continue
            stack.extend(t.children())
        while todo:
            n = todo.pop()
            if n.id in self.defined:
                continue
            self.defined.add(n.id)
            try:
                defs = n.definitions()
            except fd.TooBig:
                # without this definition the solver knows less: unsat stays sound, sat does not
                self.defs_incomplete = True
                defs = []
            for d in defs:
                self.solver.add(d)
            todo.extend(n.parents)
            if n.zdefs:
                # bridging definitions may mention other nodes' guards
                stack = list(n.zdefs)
                while stack:
                    t = stack.pop()
                    k = t.get_id()
                    if k in seen:
                        continue
                    seen[k] = t
                    reg = fd.GUARD_REG.get(k)
                    if reg is not None:
                        todo.append(reg[0])
                        continue
                    stack.extend(t.children())

    def assume(self, z):
        if isinstance(z, bool):
            z = z3.BoolVal(z)
        z = z3.simplify(z)
        if z3.is_true(z):
            return
        self.pc.append(z)
        self._pending.append(z)
        self.solver.add(z)
        n = self.fd_view(z)
        if n is not None:
            self.fd_cons.append(n)
        else:
            self.z3_only = True

    def fd_view(self, z):
        """finite-domain node of a Boolean built only from finite-domain guards and terms"""
        from .sym import bool_node_strict

        k = z.get_id()
        if k in self._fdview:
            return self._fdview[k][0]
        try:
            r = bool_node_strict(z)
        except (fd.TooBig, fd.ApplyRaise):
            r = None
        if not isinstance(r, fd.Node):
            r = None
        self._fdview[k] = (r, z)
        return r

    def _check(self, *extra):
        import time

        t0 = time.time()
        if self._pending:
            pend, self._pending = self._pending, []
            self.ensure_defs(pend)
        self.ensure_defs(extra)
        self.solver.push()
        try:
            for e in extra:
                self.solver.add(e)
            r = self.solver.check()
            model = None
            if r == z3.sat:
                if self.defs_incomplete:
                    r = z3.unknown
                else:
                    model = self.solver.model()
            elif r == z3.unsat and SECOND_OPINION:
                # thorough tier: every unsat verdict (discharged obligation or pruned path) is
                # put to cvc5 as well; a contradiction makes the verdict unknown
                v = second_opinion(self.solver.to_smt2(), self.engine.stats)
                if v == "sat":
                    r = z3.unknown
        finally:
            self.solver.pop()
        dt = time.time() - t0
        self.engine.stats.checks += 1
        self.engine.stats.seconds += dt
        return r, model, dt

    def feasible(self, z):
        gs = list(self.guards)
        # finite-domain pre-check: an over-approximation, so "infeasible" is definitive; at the
        # base cut with a purely finite-domain path condition it is exact
        if not gs:
            n = self.fd_view(z3.simplify(z)) if z3.is_expr(z) else None
            if n is not None:
                try:
                    neg = fd.apply(lambda x: not x, n)
                    r = fd.find_violations(neg, self.fd_cons, limit=1, stats=self.engine.stats.fd)
                    self.engine.stats.fd_checks += 1
                    if r[0] == "valid":
                        return False
                    if r[0] == "violations" and r[5] and not self.z3_only:
                        return True
                except fd.TooBig:
                    pass
        r, _, _ = self._check(z, *gs)
        return r != z3.unsat

    def decide(self, cond, why=""):
        """fork point on a z3 condition; returns the Python truth value taken on this path"""
        if isinstance(cond, bool):
            return cond
        c = z3.simplify(cond)
        if z3.is_true(c):
            return True
        if z3.is_false(c):
            return False
        if self.guards:
            # guarded (merging) mode: only conditions decided by pc /\ guards may pass
            t = self.feasible(c)
            f = self.feasible(z3.Not(c))
            if t and f:
                raise NeedFork(why)
            if not t and not f:
                raise NeedFork("guard infeasible")
            return t
        if self.pos < len(self.trace):
            choice = self.trace[self.pos]
            self.pos += 1
            self.assume(c if choice else z3.Not(c))
            return choice
        t = self.feasible(c)
        f = self.feasible(z3.Not(c))
        if not t and not f:
            raise PathCut("path condition infeasible")
        if t and f:
            self.alternatives.append(self.trace[: self.pos] + [False])
            choice = True
        else:
            choice = t
        self.trace.append(choice)
        self.pos += 1
        self.assume(c if choice else z3.Not(c))
        return choice

    def choose(self, n, why=""):
        """fork point without a condition: one path per alternative 0..n-1 (decision replay)"""
        if self.guards:
            raise NeedFork(why)
        if self.pos < len(self.trace):
            choice = self.trace[self.pos]
            self.pos += 1
            return choice
        for k in range(n - 1, 0, -1):
            self.alternatives.append(self.trace[: self.pos] + [k])
        self.trace.append(0)
        self.pos += 1
        return 0

    def prove(self, name, goal, detail=None, kind="vc"):
        """emit an obligation pc => goal, check it now, then assume it"""
        import time

        if isinstance(goal, bool):
            goal = z3.BoolVal(goal)
        g = z3.simplify(goal)
        t0 = time.time()
        # a conjunction is proved conjunct by conjunct (each has a small cone)
        parts = list(g.children()) if (z3.is_and(g) and not self.guards) else [g]
        ob = None
        backends = set()
        grid = 0
        for part in parts:
            o1 = self._prove_one(name, part, detail, kind)
            backends.add(o1.backend)
            grid += o1.grid or 0
            if o1.status != "discharged":
                ob = o1
                break
        if ob is None:
            ob = Obligation(name, "discharged", detail, kind=kind)
            bs = sorted(b for b in backends if b)
            ob.backend = bs[0] if len(bs) == 1 else "+".join(bs)
            ob.grid = grid
        ob.seconds = time.time() - t0
        ob.path = list(self.trace[: self.pos])
        self.obligations.append(ob)
        if ob.status == "discharged" and not self.guards and "z3" in (ob.backend or ""):
            n0 = len(self.pc)
            self.assume(g)
            # a proved goal is implied by the rest of the path condition: it is kept as a lemma for
            # the solver but is no *decision* the path rests on
            for z in self.pc[n0:]:
                self.proved_ids[z.get_id()] = z
        return ob.status == "discharged"

    def _prove_one(self, name, g, detail, kind):
        ob = None
        if z3.is_true(g):
            ob = Obligation(name, "discharged", detail, kind=kind)
            ob.backend = "trivial"
            return ob
        if not self.guards:
            n = self.fd_view(g)
            if n is not None:
                ob = self._prove_fd(name, g, n, detail, kind)
                if ob is not None:
                    return ob
        r, model, dt = self._check(z3.Not(g), *self.guards)
        if r == z3.sat and S.involves_abstract([g] + list(self.pc)):
            # the counter-model involves the abstract term of a structured string, about which
            # the solver knows nothing: believed only if evaluating the structure under the model
            # confirms it, otherwise the obligation is undecided (never a violation)
            if not self._confirmed_on_structure(g, model):
                ob = Obligation(name, "unknown", (detail or "") + " (counter-model over an abstract structured-string term, not confirmed on the structure)", kind=kind)
                ob.backend = "z3"
                return ob
        if r == z3.unsat:
            ob = Obligation(name, "discharged", detail, kind=kind)
        elif r == z3.sat:
            ob = Obligation(name, "refuted", detail, model=self.engine.snapshot_model(self, model), kind=kind)
        else:
            ob = Obligation(name, "unknown", (detail or "") + " solver: unknown", kind=kind)
        ob.backend = "z3"
        return ob

    def _confirmed_on_structure(self, g, model):
        """the goal is (or contains exactly one) registered string equality, false under the
        model, and both sides evaluate to different Python strings under the model; and the path
        condition itself does not rest on an abstract term"""
        if S.involves_abstract(list(self.pc)):
            return False
        found = []
        seen = set()
        stack = [g]
        while stack and len(seen) < 20000:
            t = stack.pop()
            k = t.get_id()
            if k in seen:
                continue
            seen.add(k)
            if k in S.EQ_REG:
                found.append(S.EQ_REG[k])
                continue
            if not z3.is_quantifier(t):
                stack.extend(t.children())
        if len(found) != 1:
            return False
        z, a, b = found[0]
        if not z3.is_false(model.eval(z, model_completion=True)):
            return False
        ca, cb = S.concrete_under(a, model), S.concrete_under(b, model)
        return ca is not None and cb is not None and ca != cb

    def fail(self, name, detail, status="refuted", model_from_pc=True, kind="vc"):
        """an obligation that fails on this path whenever the path is feasible"""
        model = None
        if model_from_pc:
            r, m, _ = self._check(*self.guards)
            if r == z3.unsat:
                return  # path infeasible after all
            if r == z3.sat:
                model = self.engine.snapshot_model(self, m)
        if status == "refuted" and S.involves_abstract([z for z in self.pc if z.get_id() not in self.proved_ids] + list(self.guards)):
            # the path was taken on the strength of an abstract structured-string term: it may
            # not exist, so what happens on it is undecided rather than a violation
            status = "unknown"
            detail = (detail or "") + " (on a path decided through an abstract structured-string term)"
        ob = Obligation(name, status, detail, model=model, kind=kind)
        ob.backend = "path"
        ob.path = list(self.trace[: self.pos])
        self.obligations.append(ob)

    def _prove_fd(self, name, g, n, detail, kind):
        """finite-domain evaluation of the obligation; counter-examples are confirmed by z3"""
        try:
            r = fd.find_violations(n, self.fd_cons, limit=12, stats=self.engine.stats.fd)
        except fd.TooBig:
            return None
        self.engine.stats.fd_checks += 1
        if r[0] == "valid":
            ob = Obligation(name, "discharged", detail, kind=kind)
            ob.backend = "fd-eval"
            ob.grid = r[1].get("grid")
            return ob
        if r[0] == "toobig":
            return None
        _, cut, points, count, depth, exact = r
        spurious = 0
        # first try to realise a violating grid point by exact finite-domain evaluation
        for pt in points[:6]:
            try:
                asg = fd.realize(pt, n, self.fd_cons)
            except (fd.TooBig, MemoryError):
                asg = None
            if asg is not None and not self.z3_only:
                ob = Obligation(name, "refuted", detail, model=self.engine.model_from_assignment(asg), kind=kind)
                ob.backend = "fd-eval(exact point)"
                return ob
        for pt in points:
            lits = [c.guards()[i] for c, i in pt.items()]
            res, model, _ = self._check(z3.Not(g), *lits)
            if res == z3.sat:
                ob = Obligation(name, "refuted", detail, model=self.engine.snapshot_model(self, model), kind=kind)
                ob.backend = "fd-eval+z3"
                return ob
            if res == z3.unsat:
                spurious += 1
        if spurious == count:
            ob = Obligation(name, "discharged", detail, kind=kind)
            ob.backend = "fd-eval+z3"
            return ob
        return None

    # -- undo log for guarded execution -------------------------------------------------------
    def log(self, fn):
        if self.undo is not None:
            self.undo.append(fn)


# --------------------------------------------------------------------------------------------


def is_concrete(v, depth=0):
    if isinstance(v, (SStr, SBool, SInt, FV, SMap, SSeq, SObj, GList, DI)):
        return False
    if depth > 6:
        return True
    if isinstance(v, (list, tuple)):
        return all(is_concrete(x, depth + 1) for x in v)
    if isinstance(v, dict):
        return all(is_concrete(x, depth + 1) for x in v.values())
    return True


def to_num(v):
    """host Decimal -> DI; everything else unchanged"""
    if isinstance(v, decimal.Decimal):
        return DI.from_decimal(v)
    return v


ROUNDINGS = {
    getattr(decimal, n): n
    for n in (
        "ROUND_CEILING",
        "ROUND_FLOOR",
        "ROUND_HALF_UP",
        "ROUND_HALF_DOWN",
        "ROUND_HALF_EVEN",
        "ROUND_DOWN",
        "ROUND_UP",
        "ROUND_05UP",
    )
}


class Engine(object):
    """
    One engine per verification task (function x case).  Holds module environments built
    from the current tree, the contract registry and statistics.
    """

    def __init__(self, contracts=None, hooks=None):
        self.src = sources()
        self.modules = {}
        self.contracts = contracts or {}
        self.stats = Stats()
        self.inline_depth = 0
        self.hooks = hooks or {}
        self.model_terms = []  # (label, z3 term) evaluated in counter-models
        self.unsupported_decorators = []
        self.call_stack = []
        self.loading = set()
        self.repo_function_names = set()

    # -- modules ----------------------------------------------------------------------------
    def module(self, name):
        if name in self.modules:
            return self.modules[name]
        if name in self.loading:
            raise Unsupported("circular import of %s" % name)
        env = ModuleEnv(name)
        self.modules[name] = env
        if name in DATA_MODULES:
            ns = self.src.data_namespace(name)
            for k, v in ns.items():
                if not k.startswith("__"):
                    env.globals[k] = v
            self._own_globals(env)
            return env
        if name not in CODE_MODULES:
            raise Unsupported("unknown repo module %s" % name)
        self.loading.add(name)
        tree = self.src.ast_of(name)
        st = PathState(self, [], fresh=False)
        frame = Frame(None, env.globals)
        env.globals["__name__"] = "cvss." + name
        try:
            for stmt in tree.body:
                self.exec_module_stmt(stmt, env, frame, st)
        finally:
            self.loading.discard(name)
        self._own_globals(env)
        return env

    def _own_globals(self, env):
        def walk(v, depth=0):
            if depth > 6:
                return
            if isinstance(v, (dict, list, set)):
                env.global_ids.add(id(v))
                it = v.values() if isinstance(v, dict) else v
                for x in it:
                    walk(x, depth + 1)

        for k, v in env.globals.items():
            walk(v)

    def is_global_obj(self, v):
        i = id(v)
        for env in self.modules.values():
            if i in env.global_ids:
                return True
        return False

    def exec_module_stmt(self, stmt, env, frame, st):
        if isinstance(stmt, ast.Expr) and isinstance(stmt.value, ast.Constant):
            return  # docstring
        if isinstance(stmt, ast.ImportFrom):
            self.do_import_from(stmt, env, frame.locals)
            return
        if isinstance(stmt, ast.Import):
            self.do_import(stmt, frame.locals)
            return
        if isinstance(stmt, ast.FunctionDef):
            frame.locals[stmt.name] = self.make_func(stmt, env, stmt.name, None, None, st, frame)
            return
        if isinstance(stmt, ast.ClassDef):
            frame.locals[stmt.name] = self.make_class(stmt, env, frame, st)
            return
        # other module-level statements are run concretely by the executor
        self.exec_stmt(stmt, frame, st)

    def do_import(self, stmt, target):
        for a in stmt.names:
            name = a.name
            if name.split(".")[0] == "cvss":
                raise Unsupported("import %s" % name)
            mod = __import__(name)
            target[a.asname or name.split(".")[0]] = mod if a.asname is None else _import_leaf(name)

    def do_import_from(self, stmt, env, target):
        if stmt.module == "__future__":
            return
        level = stmt.level
        modname = stmt.module or ""
        if level >= 1 or modname == "cvss" or modname.startswith("cvss."):
            short = modname.split(".")[-1] if modname else ""
            if short in ("", "cvss"):
                # `from cvss import CVSS2, ...` / `from . import x`
                for a in stmt.names:
                    target[a.asname or a.name] = self.resolve_package_name(a.name)
                return
            m = self.module(short)
            for a in stmt.names:
                if a.name == "*":
                    target.update(m.globals)
                    continue
                if a.name not in m.globals:
                    raise PyRaise(ImportError, ("cannot import name %s from %s" % (a.name, short),))
                target[a.asname or a.name] = m.globals[a.name]
            return
        mod = _import_leaf(modname)
        for a in stmt.names:
            if not hasattr(mod, a.name):
                raise PyRaise(ImportError, ("cannot import name %s" % a.name,))
            target[a.asname or a.name] = getattr(mod, a.name)

    def resolve_package_name(self, name):
        """names exported by cvss/__init__.py (read from the current tree)"""
        tree = ast.parse(open(self.src.repo + "/cvss/__init__.py").read())
        for stmt in tree.body:
            if isinstance(stmt, ast.ImportFrom) and stmt.level >= 1:
                for a in stmt.names:
                    if (a.asname or a.name) == name:
                        return self.module(stmt.module).globals[a.name]
        if name in CODE_MODULES or name in DATA_MODULES:
            return self.module(name)
        raise PyRaise(ImportError, ("cannot import name %s from cvss" % name,))

    def make_func(self, node, env, qualname, cls, closure, st, frame):
        kind = "function"
        if cls is None and closure is None:
            self.repo_function_names.add(node.name)
        f = PyFunc(node, env, qualname, cls, closure, kind)
        for d in node.decorator_list:
            if isinstance(d, ast.Name) and d.id in ("classmethod", "staticmethod"):
                f.kind = d.id
            else:
                f.decorators.append(ast.unparse(d))
        return f

    def make_class(self, node, env, frame, st):
        c = PyClass(node.name, env, node)
        for b in node.bases:
            bv = self.eval(b, frame, st)
            c.bases.append(bv)
        for stmt in node.body:
            if isinstance(stmt, ast.FunctionDef):
                c.methods[stmt.name] = self.make_func(
                    stmt, env, node.name + "." + stmt.name, c, None, st, frame
                )
            elif isinstance(stmt, ast.Expr) and isinstance(stmt.value, ast.Constant):
                pass
            elif isinstance(stmt, ast.Pass):
                pass
            elif isinstance(stmt, ast.Assign):
                cf = Frame(None, c.attrs, frame)
                self.exec_stmt(stmt, cf, st)
                for v in c.attrs.values():
                    if isinstance(v, (dict, list, set)):
                        env.global_ids.add(id(v))
            else:
                raise Unsupported("class-level statement %s" % type(stmt).__name__)
        return c

    # -- model snapshots ----------------------------------------------------------------------
    def model_from_assignment(self, asg):
        """counter-model read-out from an assignment of finite-domain base variables"""
        subs = []
        for var, i in asg.items():
            for j, g in enumerate(var.guards()):
                subs.append((g, z3.BoolVal(j == i)))
        out = {}
        for label, term in self.model_terms:
            try:
                v = z3.simplify(z3.substitute(term, *subs))
                out[label] = S.decode_model_value(v)
            except Exception as e:  # noqa
                out[label] = "<eval failed: %s>" % e
        return out

    def snapshot_model(self, st, model):
        out = {}
        for label, term in self.model_terms:
            try:
                v = model.eval(term, model_completion=True)
                out[label] = S.decode_model_value(v)
            except Exception as e:  # noqa
                out[label] = "<eval failed: %s>" % e
        return out

    # ========================================================================================
    # statements

    def exec_block(self, stmts, frame, st):
        for s in stmts:
            self.exec_stmt(s, frame, st)

    def exec_stmt(self, node, frame, st):
        m = getattr(self, "st_" + type(node).__name__, None)
        if m is None:
            raise Unsupported("statement %s" % type(node).__name__)
        return m(node, frame, st)

    def st_Pass(self, node, frame, st):
        pass

    def st_Expr(self, node, frame, st):
        self.eval(node.value, frame, st)

    def st_Import(self, node, frame, st):
        self.do_import(node, frame.locals)

    def st_ImportFrom(self, node, frame, st):
        env = frame.func.module if frame.func else None
        self.do_import_from(node, env, frame.locals)

    def st_Global(self, node, frame, st):
        frame.locals.setdefault("__globals_decl__", set()).update(node.names)

    def st_FunctionDef(self, node, frame, st):
        env = frame.func.module if frame.func else None
        q = (frame.func.qualname + "." if frame.func else "") + node.name
        self.set_local(frame, node.name, self.make_func(node, env, q, None, frame, st, frame), st)

    def st_Return(self, node, frame, st):
        if len(st.guards) > self.guard_base(frame):
            raise NeedFork("return under merge guard")
        v = self.eval(node.value, frame, st) if node.value is not None else None
        raise ReturnSig(v)

    def guard_base(self, frame):
        """number of merge guards that were active when the current function was entered"""
        f = frame
        while f is not None:
            if "__guard_base__" in f.locals:
                return f.locals["__guard_base__"]
            f = f.parent
        return 0

    def st_Break(self, node, frame, st):
        if len(st.guards) > frame.locals.get("__loop_guard_base__", self.guard_base(frame)):
            raise NeedFork("break under merge guard")
        raise BreakSig()

    def st_Continue(self, node, frame, st):
        if len(st.guards) > frame.locals.get("__loop_guard_base__", self.guard_base(frame)):
            raise NeedFork("continue under merge guard")
        raise ContinueSig()

    def st_Raise(self, node, frame, st):
        if st.guards:
            raise NeedFork("raise under merge guard")
        if node.exc is None:
            cur = frame.locals.get("__current_exc__")
            if cur is None:
                raise PyRaise(RuntimeError, ("No active exception to reraise",))
            raise PyRaise(cur.exc_cls, cur.args)
        v = self.eval(node.exc, frame, st)
        if isinstance(v, ExcValue):
            raise PyRaise(v.exc_cls, v.args)
        if isinstance(v, type) and issubclass(v, BaseException):
            raise PyRaise(v, ())
        raise Unsupported("raise of %r" % (v,))

    def st_Assert(self, node, frame, st):
        v = self.eval(node.test, frame, st)
        if not self.truth(v, st, "assert"):
            raise PyRaise(AssertionError, ())

    def st_Assign(self, node, frame, st):
        v = self.eval(node.value, frame, st)
        for t in node.targets:
            self.assign(t, v, frame, st)

    def st_AnnAssign(self, node, frame, st):
        if node.value is not None:
            self.assign(node.target, self.eval(node.value, frame, st), frame, st)

    def st_AugAssign(self, node, frame, st):
        load = _copy.copy(node.target)
        load.ctx = ast.Load()
        cur = self.eval(load, frame, st)
        rhs = self.eval(node.value, frame, st)
        # in-place list extension mutates the object (matters for aliasing module globals)
        if isinstance(node.op, ast.Add) and isinstance(cur, list):
            self.check_global_write(cur, st, "+= on a list")
            items = self.iterate(rhs, st)
            old = list(cur)
            cur.extend(items)
            st.log(lambda: cur.__setitem__(slice(None), old))
            self.assign(node.target, cur, frame, st)
            return
        v = self.binop(node.op, cur, rhs, st)
        self.assign(node.target, v, frame, st)

    def st_Delete(self, node, frame, st):
        for t in node.targets:
            if isinstance(t, ast.Subscript):
                obj = self.eval(t.value, frame, st)
                key = self.eval(t.slice, frame, st)
                self.call_method(obj, "__delitem__", [key], {}, st)
            elif isinstance(t, ast.Name):
                frame.locals.pop(t.id, None)
            else:
                raise Unsupported("del target")

    def assign(self, target, v, frame, st):
        if isinstance(target, ast.Name):
            self.set_local(frame, target.id, v, st)
        elif isinstance(target, ast.Attribute):
            obj = self.eval(target.value, frame, st)
            self.set_attr(obj, target.attr, v, st)
        elif isinstance(target, ast.Subscript):
            obj = self.eval(target.value, frame, st)
            key = self.eval(target.slice, frame, st)
            self.set_item(obj, key, v, st)
        elif isinstance(target, (ast.Tuple, ast.List)):
            items = self.unpack(v, len(target.elts), st)
            for t, x in zip(target.elts, items):
                self.assign(t, x, frame, st)
        else:
            raise Unsupported("assignment target %s" % type(target).__name__)

    def unpack(self, v, n, st):
        if isinstance(v, S.SplitResult):
            # tuple-unpacking the result of str.split: ValueError unless it has n parts
            if not st.decide(v.len_is(n), "unpack split"):
                raise PyRaise(ValueError, ("unpack",))
            return [v.part(i) for i in range(n)]
        if isinstance(v, FV):
            lens = set(len(x) for x in v.values)
            if lens == {n}:
                return [fv_apply(lambda t, i=i: t[i], v) for i in range(n)]
            raise Unsupported("unpack of finite choice with differing lengths")
        if isinstance(v, (list, tuple)):
            if len(v) != n:
                raise PyRaise(ValueError, ("unpack",))
            return list(v)
        if isinstance(v, (str,)):
            if len(v) != n:
                raise PyRaise(ValueError, ("unpack",))
            return list(v)
        if isinstance(v, SSeq):
            if not st.decide(v.length == n, "unpack seq"):
                raise PyRaise(ValueError, ("unpack",))
            return [mk_str(v.at(i)) for i in range(n)]
        raise Unsupported("unpack of %r" % (type(v).__name__,))

    # -- stores with merge support ---------------------------------------------------------------
    def merged(self, new, old, st, base=0):
        """
        value of a store performed under the active merge guards; guards that were already active
        when the stored-into frame / container came into existence (`base`) do not count: the
        location only exists under them
        """
        gs = st.guards[base:]
        if not gs:
            return new
        g = _and(gs)
        return self.merge_values(g, new, old)

    def born(self, obj, st):
        """remember under how many merge guards a container was created"""
        st.container_base[id(obj)] = (len(st.guards), obj)
        return obj

    def base_of(self, obj, st):
        r = st.container_base.get(id(obj))
        return r[0] if r is not None and r[1] is obj else 0

    def merge_values(self, g, new, old):
        if new is old:
            return new
        if isinstance(new, (SObj, SMap, GList, list, dict, PyFunc, SSeq, Phi)) or isinstance(
            old, (SObj, SMap, GList, list, dict, PyFunc, SSeq, Phi)
        ):
            raise NeedFork("merge of mutable objects")
        if isinstance(new, (SStr,)) or isinstance(old, (SStr,)):
            if isinstance(new, (str, SStr)) and isinstance(old, (str, SStr)):
                return mk_str(z3.If(g, str_z(new), str_z(old)))
            raise NeedFork("merge str with non-str")
        if isinstance(new, SInt) or isinstance(old, SInt):
            zi = lambda x: x.z if isinstance(x, SInt) else z3.IntVal(x)
            if isinstance(new, (int, SInt)) and isinstance(old, (int, SInt)):
                return SInt(z3.If(g, zi(new), zi(old)))
            raise NeedFork("merge int")
        gn = bool_node(g)
        if isinstance(new, SBool) or isinstance(old, SBool):
            try:
                return fv_apply(lambda c, a, b: a if c else b, gn, new, old)
            except LeafRaise:
                raise NeedFork("merge")
        try:
            r = fd.ite(gn, new, old)
        except fd.TooBig:
            raise NeedFork("merge too big")
        if isinstance(r, FV) and len(r.values) == 2 and all(isinstance(x, bool) for x in r.values):
            return fv_apply(lambda x: x, r)
        return r

    def resolve_phi(self, v, st):
        """read of a lazily merged mutable local: the guards under which it was stored decide"""
        while isinstance(v, Phi):
            cur = {g.get_id() for g in st.guards}
            if all(g.get_id() in cur for g in v.guards):
                v = v.new
                continue
            g = _and(v.guards)
            if st.guards:
                t, f = st.feasible(g), st.feasible(z3.Not(g))
                if t and f:
                    raise NeedFork("read of a conditionally assigned mutable local")
                v = v.new if t else v.old
            else:
                v = v.new if st.decide(g, "conditionally assigned local") else v.old
        return v

    def set_local(self, frame, name, v, st):
        decl = frame.locals.get("__globals_decl__")
        if decl and name in decl:
            env = frame.func.module
            st.events.append(("global-write", "global %s assigned in %s" % (name, frame.func.qualname)))
            old = env.globals.get(name, UNBOUND)
            env.globals[name] = self.merged(v, old, st)
            st.log(lambda: env.globals.__setitem__(name, old))
            return
        old = frame.locals.get(name, UNBOUND)
        try:
            frame.locals[name] = self.merged(v, old, st, self.guard_base(frame))
        except NeedFork as e:
            if "mutable" not in str(e):
                raise
            # a mutable object stored into a local under merge guards: kept as a lazy choice that
            # is resolved when (and if) the local is read
            frame.locals[name] = Phi(list(st.guards[self.guard_base(frame):]), v, old)
        if old is UNBOUND:
            st.log(lambda: frame.locals.pop(name, None))
        else:
            st.log(lambda: frame.locals.__setitem__(name, old))

    def set_attr(self, obj, attr, v, st):
        if isinstance(obj, SObj):
            old = obj.fields.get(attr, UNBOUND)
            obj.fields[attr] = self.merged(v, old, st)
            was_written = attr in obj.written
            obj.written.add(attr)
            st.events.append(("write", obj, attr))

            def undo():
                if old is UNBOUND:
                    obj.fields.pop(attr, None)
                else:
                    obj.fields[attr] = old
                if not was_written:
                    obj.written.discard(attr)

            st.log(undo)
            return
        if isinstance(obj, PyClass):
            st.events.append(("global-write", "class attribute %s.%s assigned" % (obj.name, attr)))
            obj.attrs[attr] = v
            return
        if isinstance(obj, ModuleEnv):
            st.events.append(("global-write", "module attribute %s.%s assigned" % (obj.name, attr)))
            obj.globals[attr] = v
            return
        if isinstance(obj, PyFunc):
            st.events.append(("global-write", "function attribute %s.%s assigned" % (obj.qualname, attr)))
            obj.__dict__.setdefault("fattrs", {})[attr] = v
            return
        if _is_host_module(obj) or isinstance(obj, type):
            st.events.append(("global-write", "attribute %s of %r assigned" % (attr, obj)))
            raise Unsupported("assignment to attribute of host object %r" % (obj,))
        raise Unsupported("attribute store on %r" % (type(obj).__name__,))

    def check_global_write(self, obj, st, what):
        if self.is_global_obj(obj):
            st.events.append(("global-write", "%s (module-level object mutated)" % what))

    def set_item(self, obj, key, v, st):
        if isinstance(obj, SMap):
            if st.guards:
                g = _and(st.guards)
                kz = str_z(key)
                old_dom, old_val = obj.dom, obj.val
                obj.dom = z3.Store(obj.dom, kz, z3.Or(g, z3.Select(obj.dom, kz)))
                obj.val = z3.Store(obj.val, kz, z3.If(g, str_z(v), z3.Select(obj.val, kz)))
            else:
                old_dom, old_val = obj.dom, obj.val
                obj.store(key, v)
            st.events.append(("map-write", obj, key))
            hook = self.hooks.get("on_map_store")
            if hook:
                hook(self, st, obj, key, v)

            def undo():
                obj.dom, obj.val = old_dom, old_val

            st.log(undo)
            return
        if isinstance(obj, dict):
            self.check_global_write(obj, st, "dict item assignment")
            if isinstance(key, FV) or isinstance(key, SStr):
                raise Unsupported("store into a concrete dict with a symbolic key")
            k = key
            had = k in obj
            old = obj.get(k, UNBOUND)
            obj[k] = self.merged(v, old, st, self.base_of(obj, st))

            def undo():
                if had:
                    obj[k] = old
                else:
                    obj.pop(k, None)

            st.log(undo)
            return
        if isinstance(obj, list):
            self.check_global_write(obj, st, "list item assignment")
            if not isinstance(key, int):
                raise Unsupported("list store with symbolic index")
            if not -len(obj) <= key < len(obj):
                raise PyRaise(IndexError, ("list assignment index out of range",))
            old = obj[key]
            obj[key] = self.merged(v, old, st, self.base_of(obj, st))
            st.log(lambda: obj.__setitem__(key, old))
            return
        raise Unsupported("item store on %r" % (type(obj).__name__,))

    # -- conditionals (merge first, fork when merging is impossible) ---------------------------
    def cond_z(self, v, st):
        """z3 formula for the truth value of v, or a Python bool"""
        if isinstance(v, bool):
            return v
        if isinstance(v, SBool):
            return v.z
        if isinstance(v, FV):
            return fv_guard_of(v, self.concrete_truth)
        if isinstance(v, GList):
            return z3.simplify(v.truth_z())
        if type(v).__name__ == "SymSet":
            return z3.simplify(_or([g for g, _ in v.items]))
        if isinstance(v, S.SCat):
            e = S.scat_empty_z(v)
            if e is None:
                raise Unsupported("truth value of a structured string with possibly empty pieces")
            return z3.simplify(z3.Not(e))
        if isinstance(v, SStr):
            return z3.simplify(v.z != lit(""))
        if isinstance(v, SInt):
            return z3.simplify(v.z != 0)
        if isinstance(v, DI):
            return not (v.lo == 0 and v.hi == 0) if v.lo == v.hi else self._di_truth(v)
        if isinstance(v, SMap):
            raise Unsupported("truth value of a symbolic map")
        if isinstance(v, SSeq):
            return z3.simplify(v.length > 0)
        if isinstance(v, (SObj, PyFunc, PyClass, ExcValue)):
            return True
        return bool(v)

    def _di_truth(self, v):
        if v.lo > 0 or v.hi < 0:
            return True
        raise NumericUndecided("truth value of an inexact Decimal that may be zero")

    def concrete_truth(self, x):
        if isinstance(x, DI):
            return self.cond_z(x, None)
        return bool(x)

    def truth(self, v, st, why=""):
        c = self.cond_z(v, st)
        if isinstance(c, bool):
            return c
        return st.decide(c, why)

    def guarded(self, g, fn, st):
        """run fn() with its effects merged under guard g; raises NeedFork if impossible"""
        outer_undo = st.undo
        log = []
        st.undo = log
        st.guards.append(g)
        try:
            r = fn()
        except (NeedFork, ReturnSig, BreakSig, ContinueSig, PyRaise, PathCut) as e:
            st.guards.pop()
            st.undo = None
            for u in reversed(log):
                u()
            st.undo = outer_undo
            if isinstance(e, NeedFork):
                raise
            raise NeedFork("control transfer under merge guard")
        except BaseException:
            st.guards.pop()
            st.undo = None
            for u in reversed(log):
                u()
            st.undo = outer_undo
            raise
        st.guards.pop()
        st.undo = outer_undo
        if outer_undo is not None:
            outer_undo.extend(log)
        return r

    def st_If(self, node, frame, st):
        v = self.eval(node.test, frame, st)
        c = self.cond_z(v, st)
        if isinstance(c, bool):
            self.exec_block(node.body if c else node.orelse, frame, st)
            return
        c = z3.simplify(c)
        if z3.is_true(c) or z3.is_false(c):
            self.exec_block(node.body if z3.is_true(c) else node.orelse, frame, st)
            return
        if self.mergeable(node.body) and self.mergeable(node.orelse):
            # try to merge both arms
            outer_undo = st.undo
            log = []
            st.undo = log
            try:
                self.guarded(c, lambda: self.exec_block(node.body, frame, st), st)
                if node.orelse:
                    self.guarded(z3.Not(c), lambda: self.exec_block(node.orelse, frame, st), st)
                st.undo = outer_undo
                if outer_undo is not None:
                    outer_undo.extend(log)
                return
            except NeedFork:
                st.undo = None
                for u in reversed(log):
                    u()
                st.undo = outer_undo
                if st.guards:
                    raise
        elif st.guards:
            raise NeedFork("unmergeable if under merge guard")
        if st.decide(c, "if@%d" % node.lineno):
            self.exec_block(node.body, frame, st)
        else:
            self.exec_block(node.orelse, frame, st)

    def mergeable(self, stmts):
        """
        arms that are merged rather than forked: straight-line effects without control transfer
        and without calls into the code under verification (a callee's effect is usually a
        case split that is better taken as a fork)
        """
        def walk(n):
            # the tests of nested conditionals are not part of what gets merged
            yield n
            for name, val in ast.iter_fields(n):
                if isinstance(n, (ast.If, ast.IfExp)) and name == "test":
                    continue
                if isinstance(val, ast.AST):
                    yield from walk(val)
                elif isinstance(val, list):
                    for x in val:
                        if isinstance(x, ast.AST):
                            yield from walk(x)

        for s in stmts:
            for n in walk(s):
                if isinstance(n, (ast.Return, ast.Raise, ast.Break, ast.Continue, ast.Try, ast.While)):
                    return False
                if isinstance(n, ast.Call):
                    f = n.func
                    if isinstance(f, ast.Attribute) and isinstance(f.value, ast.Name) and f.value.id in ("self", "cls"):
                        return False
                    if isinstance(f, ast.Name) and f.id in self.repo_function_names:
                        return False
        return True

    # -- loops ----------------------------------------------------------------------------------
    def st_For(self, node, frame, st):
        it = self.eval(node.iter, frame, st)
        if isinstance(it, S.SplitResult):
            it = it.as_seq_or_list(st)
        if isinstance(it, SSeq):
            return self.for_symbolic(node, it, frame, st)
        if isinstance(it, GList) and not all(z3.is_true(g) for g, _ in it.items):
            try:
                items = self.iterate(it, st, fork_ok=False)
            except Unsupported:
                return self.for_conditional(node, it, frame, st)
        else:
            items = self.iterate(it, st)
        broke = False
        prev_lgb = frame.locals.get("__loop_guard_base__")
        frame.locals["__loop_guard_base__"] = len(st.guards)
        try:
            return self._for_concrete(node, items, frame, st)
        finally:
            if prev_lgb is None:
                frame.locals.pop("__loop_guard_base__", None)
            else:
                frame.locals["__loop_guard_base__"] = prev_lgb

    def for_conditional(self, node, gl, frame, st):
        """loop over a list whose elements are present under conditions: the body of a
        conditionally present element is merged under its guard (or forked when it cannot be)"""
        if node.orelse:
            raise Unsupported("for/else over conditionally present elements")
        for g, x in list(gl.items):
            if z3.is_true(g):
                self.assign(node.target, x, frame, st)
                try:
                    self.exec_block(node.body, frame, st)
                except ContinueSig:
                    continue
                except BreakSig:
                    return
                continue

            def body(x=x):
                self.assign(node.target, x, frame, st)
                self.exec_block(node.body, frame, st)

            try:
                self.guarded(g, body, st)
            except NeedFork:
                if st.guards:
                    raise
                if st.decide(g, "element present?"):
                    try:
                        body()
                    except ContinueSig:
                        continue
                    except BreakSig:
                        return

    def _for_concrete(self, node, items, frame, st):
        broke = False
        for x in items:
            self.assign(node.target, x, frame, st)
            try:
                self.exec_block(node.body, frame, st)
            except BreakSig:
                broke = True
                break
            except ContinueSig:
                continue
        if not broke and node.orelse:
            self.exec_block(node.orelse, frame, st)

    def for_symbolic(self, node, seq, frame, st):
        """loop over a symbolic sequence: needs an inductive invariant from the contract"""
        spec = self.hooks.get("loop_invariant")
        if spec is None:
            raise Unsupported("loop over a symbolic sequence without an invariant")
        if st.guards:
            raise NeedFork("symbolic loop under merge guard")
        inv = spec(self, st, frame, seq, node)
        if inv is None:
            raise Unsupported("no invariant registered for the loop at line %d" % node.lineno)
        lname = inv.name
        st.prove("%s/inv-init" % lname, inv.holds(z3.IntVal(0)), "invariant holds on entry")
        arbitrary = st.decide(fresh_bool("iter").z, "loop:arbitrary-iteration-vs-exit")
        inv.havoc()
        if arbitrary:
            i = z3.Int(fresh_name("i"))
            st.assume(z3.And(i >= 0, i < seq.length))
            st.assume(inv.holds(i))
            inv.enter_iteration(i)
            self.assign(node.target, mk_str(seq.at(SInt(i))), frame, st)
            try:
                self.exec_block(node.body, frame, st)
            except ContinueSig:
                pass
            except BreakSig:
                raise Unsupported("break out of an invariant loop")
            st.prove("%s/inv-pres" % lname, inv.holds(i + 1), "invariant preserved by the body")
            raise PathCut("inductive step closed")
        else:
            st.assume(inv.holds(seq.length))
            inv.exit_loop()
            if node.orelse:
                self.exec_block(node.orelse, frame, st)

    def st_While(self, node, frame, st):
        spec = self.hooks.get("while_invariant")
        is_true = isinstance(node.test, ast.Constant) and node.test.value is True
        if spec is not None:
            handled = spec(self, st, frame, node)
            if handled:
                return
        # bounded-by-decisions unrolling for concrete loops only
        n = 0
        while True:
            v = self.eval(node.test, frame, st)
            if not self.truth(v, st, "while"):
                break
            try:
                self.exec_block(node.body, frame, st)
            except BreakSig:
                return
            except ContinueSig:
                pass
            n += 1
            if n > 200:
                raise Unsupported("while loop without invariant exceeded 200 iterations")
        if node.orelse:
            self.exec_block(node.orelse, frame, st)

    def st_With(self, node, frame, st):
        raise Unsupported("with statement")

    # -- try/except -----------------------------------------------------------------------------
    def st_Try(self, node, frame, st):
        if st.guards:
            # under a merge guard a try statement is fine as long as nothing is raised in it
            if node.finalbody:
                raise NeedFork("try/finally under merge guard")
            try:
                self.exec_block(node.body, frame, st)
            except PyRaise:
                raise NeedFork("exception under merge guard")
            if node.orelse:
                self.exec_block(node.orelse, frame, st)
            return
        try:
            try:
                self.exec_block(node.body, frame, st)
            except PyRaise as e:
                handler = None
                for h in node.handlers:
                    if h.type is None:
                        handler = h
                        break
                    tv = self.eval(h.type, frame, st)
                    classes = tv if isinstance(tv, tuple) else (tv,)
                    ok = False
                    for c in classes:
                        if isinstance(c, type) and isinstance(e.exc_cls, type) and issubclass(e.exc_cls, c):
                            ok = True
                    if ok:
                        handler = h
                        break
                if handler is None:
                    raise
                prev = frame.locals.get("__current_exc__")
                ev = ExcValue(e.exc_cls, e.exc_args)
                frame.locals["__current_exc__"] = ev
                if handler.name:
                    frame.locals[handler.name] = ev
                try:
                    self.exec_block(handler.body, frame, st)
                finally:
                    frame.locals["__current_exc__"] = prev
            else:
                if node.orelse:
                    self.exec_block(node.orelse, frame, st)
        finally:
            if node.finalbody:
                self.exec_block(node.finalbody, frame, st)

    # ========================================================================================
    # expressions

    def eval(self, node, frame, st):
        m = getattr(self, "ex_" + type(node).__name__, None)
        if m is None:
            raise Unsupported("expression %s" % type(node).__name__)
        return m(node, frame, st)

    def ex_Constant(self, node, frame, st):
        return node.value

    def under_guards(self, v, st):
        """a finite choice read under merge guards that determine it is read as its value"""
        if not st.guards or not isinstance(v, FV):
            return v
        gn = [bool_node(g) for g in st.guards]
        gn = [g for g in gn if isinstance(g, FV)]
        if not gn:
            return v
        # a value merged under one of the active guards is read as the value stored under it
        gids = {g.id for g in gn}
        while isinstance(v, FV) and v.ite is not None and v.ite[0].id in gids:
            v = v.ite[1]
        if not isinstance(v, FV):
            return v
        anc = fd.ancestors(v)
        rel = [g for g in gn if g.id in anc or any(a in anc for a in fd.ancestors(g))]
        if not rel:
            return v
        try:
            idx = fd.possible_indices(v, gn)
        except fd.TooBig:
            return v
        if len(idx) == 1:
            return v.values[idx[0]]
        if 1 < len(idx) < len(v.values):
            # under the guards only these values occur: read the choice restricted to them
            allowed = {vkey(v.values[i]) for i in idx}
            first = v.values[idx[0]]
            key = (v.id, tuple(idx))
            cache = st.ghost.setdefault("restricted", {})
            r = cache.get(key)
            if r is None:
                r = fd.apply(lambda x: x if vkey(x) in allowed else first, v)
                cache[key] = r
            return r
        return v

    def ex_Name(self, node, frame, st):
        name = node.id
        f = frame
        while f is not None:
            if name in f.locals:
                v = f.locals[name]
                if isinstance(v, Phi):
                    v = self.resolve_phi(v, st)
                v = self.under_guards(v, st)
                if v is UNBOUND:
                    raise PyRaise(UnboundLocalError, (name,))
                if isinstance(v, FV) and any(x is UNBOUND for x in v.values):
                    g = fv_guard_of(v, lambda x: x is UNBOUND)
                    if st.decide(g, "unbound local %s" % name):
                        raise PyRaise(UnboundLocalError, (name,))
                return v
            f = f.parent
        fn = frame.func
        f = frame
        while fn is None and f is not None:
            fn = f.func
            f = f.parent
        env = None
        f = frame
        while f is not None:
            if f.func is not None:
                env = f.func.module
                break
            f = f.parent
        if env is not None and name in env.globals:
            return env.globals[name]
        if env is None and name in frame.locals:
            return frame.locals[name]
        if hasattr(builtins, name):
            return getattr(builtins, name)
        raise PyRaise(NameError, (name,))

    def ex_JoinedStr(self, node, frame, st):
        parts = []
        for v in node.values:
            if isinstance(v, ast.Constant):
                parts.append(v.value)
            elif isinstance(v, ast.FormattedValue):
                x = self.eval(v.value, frame, st)
                if v.format_spec is not None or v.conversion not in (-1, 115):
                    if is_concrete(x):
                        spec = self.eval(v.format_spec, frame, st) if v.format_spec else ""
                        x = format(x, spec)
                    else:
                        raise Unsupported("format spec on symbolic value")
                parts.append(self.to_str(x, st))
        return S.concat_all(parts)

    def ex_Tuple(self, node, frame, st):
        return tuple(self.eval(e, frame, st) for e in node.elts)

    def ex_List(self, node, frame, st):
        if not node.elts:
            return self.born(GList(), st)  # accumulator lists may be appended to under merge guards
        return self.born([self.eval(e, frame, st) for e in node.elts], st)

    def ex_Set(self, node, frame, st):
        items = [self.eval(e, frame, st) for e in node.elts]
        if all(is_concrete(x) for x in items):
            return set(items)
        raise Unsupported("set display with symbolic elements")

    def ex_Dict(self, node, frame, st):
        if not node.keys and self.hooks.get("empty_dict_is_map"):
            return SMap.empty("dict@%d" % node.lineno)
        d = {}
        for k, v in zip(node.keys, node.values):
            if k is None:
                raise Unsupported("dict unpacking")
            kv = self.eval(k, frame, st)
            if not is_concrete(kv):
                raise Unsupported("dict display with symbolic key")
            d[kv] = self.eval(v, frame, st)
        return self.born(d, st)

    def ex_Attribute(self, node, frame, st):
        obj = self.eval(node.value, frame, st)
        return self.get_attr(obj, node.attr, st)

    def get_attr(self, obj, attr, st):
        if isinstance(obj, SObj):
            if attr in obj.fields:
                v = obj.fields[attr]
                if v is UNBOUND:
                    raise PyRaise(AttributeError, (attr,))
                if isinstance(v, FV) and any(x is UNBOUND for x in v.values):
                    g = fv_guard_of(v, lambda x: x is UNBOUND)
                    if st.decide(g, "unset attribute %s" % attr):
                        raise PyRaise(AttributeError, (attr,))
                return v
            m = obj.cls.lookup(attr)
            if isinstance(m, PyFunc):
                if m.kind == "staticmethod":
                    return m
                if m.kind == "classmethod":
                    return BoundMethod(m, obj.cls)
                return BoundMethod(m, obj)
            if m is not None:
                return m
            if attr == "__dict__":
                return obj.fields
            if attr == "__class__":
                return obj.cls
            if getattr(obj, "assumed_state", False) and attr not in getattr(obj, "extra_fields", ()):
                # the object's state was assumed by a contract (representation invariant), not
                # built by the code: an attribute the invariant does not mention needs a contract,
                # it is not evidence of an AttributeError
                raise Unsupported("self.%s is not covered by the representation invariant the contract assumes" % attr)
            raise PyRaise(AttributeError, (attr,))
        if isinstance(obj, PyClass):
            m = obj.lookup(attr)
            if isinstance(m, PyFunc):
                if m.kind == "classmethod":
                    return BoundMethod(m, obj)
                return m
            if m is not None:
                return m
            if attr == "__name__":
                return obj.name
            raise PyRaise(AttributeError, (attr,))
        if isinstance(obj, ModuleEnv):
            if attr in obj.globals:
                return obj.globals[attr]
            raise PyRaise(AttributeError, (attr,))
        if isinstance(obj, ExcValue):
            if attr == "args":
                return obj.args
            raise Unsupported("attribute %s of exception value" % attr)
        if isinstance(obj, PyFunc):
            fa = obj.__dict__.get("fattrs", {})
            if attr in fa:
                return fa[attr]
            if attr == "__name__":
                return obj.name
            raise PyRaise(AttributeError, (attr,))
        if isinstance(obj, (SStr, FV, DI, SMap, GList, SSeq, SBool, SInt, S.SplitResult, OpaqueObjList)) or type(obj).__name__ == "SymSet":
            return HostMethod(obj, attr)
        if isinstance(obj, (str, list, dict, tuple, set, int, float, decimal.Decimal, Fraction)):
            if not hasattr(obj, attr):
                raise PyRaise(AttributeError, (attr,))
            return HostMethod(obj, attr)
        # host objects (modules, argparse namespaces, ...)
        if type(obj).__module__.startswith("contracts."):
            if attr == "__dict__" or (hasattr(obj, attr) and not callable(getattr(obj, attr))):
                return getattr(obj, attr)
            if attr in getattr(obj, "__dict__", {}):
                return obj.__dict__[attr]
            if type(obj).__name__ == "Namespace":
                raise PyRaise(AttributeError, (attr,))
            return HostMethod(obj, attr)
        try:
            return getattr(obj, attr)
        except AttributeError:
            raise PyRaise(AttributeError, (attr,))

    def ex_Subscript(self, node, frame, st):
        obj = self.eval(node.value, frame, st)
        if isinstance(node.slice, ast.Slice):
            lo = self.eval(node.slice.lower, frame, st) if node.slice.lower else None
            hi = self.eval(node.slice.upper, frame, st) if node.slice.upper else None
            step = self.eval(node.slice.step, frame, st) if node.slice.step else None
            return self.get_slice(obj, lo, hi, step, st)
        key = self.eval(node.slice, frame, st)
        return self.get_item(obj, key, st)

    def get_slice(self, obj, lo, hi, step, st):
        if isinstance(obj, S.SplitResult) and hi is None and step is None and isinstance(lo, int):
            return obj.tail(lo)
        if isinstance(obj, GList) and hi is None and step is None and isinstance(lo, int) and lo >= 0:
            if all(z3.is_true(g) for g, _ in obj.items[:lo]):
                return self.born(GList(obj.items[lo:]), st)
        if all(not is_sym(x) for x in (lo, hi, step)):
            sl = slice(lo, hi, step)
            if isinstance(obj, FV):
                return fv_apply(lambda o: o[sl], obj)
            if isinstance(obj, (str, list, tuple)):
                return obj[sl]
        if isinstance(obj, (str, FV)) and all(isinstance(x, (int, type(None), FV)) for x in (lo, hi, step)):
            return fv_apply(lambda o, a, b, c: o[slice(a, b, c)], obj, lo, hi, step)
        raise Unsupported("slice of %s" % type(obj).__name__)

    def get_item(self, obj, key, st):
        if isinstance(obj, SMap):
            if not st.decide(obj.has(key), "KeyError?"):
                raise PyRaise(KeyError, (key,))
            return mk_str(obj.get(key))
        if isinstance(obj, dict):
            return self.dict_lookup(obj, key, st, None, True)
        if isinstance(obj, S.SplitResult):
            if isinstance(key, int):
                return obj.index(key, st)
            raise Unsupported("symbolic index into split result")
        if isinstance(obj, SSeq):
            kz = key.z if isinstance(key, SInt) else z3.IntVal(key)
            inb = z3.And(kz >= -obj.length, kz < obj.length)
            if not st.decide(inb, "IndexError?"):
                raise PyRaise(IndexError, ())
            if isinstance(key, int) and key < 0:
                return mk_str(obj.at(obj.length + key))
            return mk_str(obj.at(kz))
        if isinstance(obj, GList):
            return self.get_item(self.compact_glist(obj, st), key, st)
        if isinstance(obj, (list, tuple, str)):
            if isinstance(key, FV):
                return self.lift_raise(lambda o, k: o[k], [obj, key], st)
            if isinstance(key, (SInt, SStr)):
                raise Unsupported("symbolic index")
            try:
                return obj[key]
            except IndexError:
                raise PyRaise(IndexError, ())
            except TypeError:
                raise PyRaise(TypeError, ())
        if isinstance(obj, FV):
            return self.lift_raise(lambda o, k: self._concrete_getitem(o, k), [obj, key], st)
        if isinstance(obj, SStr):
            raise Unsupported("index into an abstract string")
        try:
            return obj[key]
        except Exception as e:  # noqa
            raise PyRaise(type(e), e.args)

    @staticmethod
    def _concrete_getitem(o, k):
        return o[k]

    def dict_lookup(self, d, key, st, default, strict):
        """d[key] / d.get(key, default) on a concrete dict with a possibly symbolic key"""
        if isinstance(key, SStr):
            key = finitize_str(key, [k for k in d.keys() if isinstance(k, str)])
        if isinstance(key, FV):
            if strict or is_concrete(default):
                def look(k):
                    if k is OTHER:
                        if strict:
                            raise KeyError("<other>")
                        return default
                    try:
                        present = k in d
                    except TypeError:
                        raise TypeError("unhashable type")
                    if present:
                        return to_num(d[k])
                    if strict:
                        raise KeyError(k)
                    return to_num(default)

                return self.lift_raise(look, [key], st)
            pairs = []
            for g, k in key.leaves:
                if k is not OTHER and k in d:
                    pairs.append((g, d[k]))
                else:
                    pairs.append((g, default))
            return self.join_choice(pairs, st)
        try:
            if key in d:
                return d[key]
        except TypeError:
            raise PyRaise(TypeError, ("unhashable key",))
        if strict:
            raise PyRaise(KeyError, (key,))
        return default

    def join_choice(self, pairs, st):
        """[(guard, value)] -> value; values may be concrete scalars (-> FV) or abstract strs"""
        pairs = [(g, to_num(v)) for g, v in pairs if not z3.is_false(g)]
        if not pairs:
            raise PathCut("empty choice")
        if len(pairs) == 1:
            return pairs[0][1]
        if any(isinstance(v, (SStr,)) for _, v in pairs):
            if all(isinstance(v, (str, SStr)) for _, v in pairs):
                t = str_z(pairs[-1][1])
                for g, v in reversed(pairs[:-1]):
                    t = z3.If(g, str_z(v), t)
                return mk_str(t)
            raise Unsupported("choice between abstract strings and other values")
        flat = []
        for g, v in pairs:
            if isinstance(v, (SObj, SMap, GList)):
                vals = [v2 for _, v2 in pairs]
                if all(v2 is vals[0] for v2 in vals):
                    return vals[0]
                for g2, v2 in pairs[:-1]:
                    if st.decide(g2, "choice of object"):
                        return v2
                return pairs[-1][1]
            for h, x in leaves_of(v):
                flat.append((_and([g, h]), x))
        return regroup(flat)

    def lift_raise(self, f, args, st):
        """leaf-wise application where some leaves may raise: fork on those leaves"""
        try:
            return fv_apply(f, *args)
        except (TypeError, ZeroDivisionError) as e:
            if any(isinstance(a, FV) for a in args):
                raise
            # all operands concrete: the host operation's exception is the program's exception
            raise PyRaise(type(e), e.args)
        except LeafRaise as lr:
            for e, g in lr.exc_leaves:
                cls = type(e)
                if issubclass(cls, (NumericUndecided, UnsupportedOp, TooManyLeaves)):
                    # an undecided leaf only matters when its guard is feasible on this path
                    if st.feasible(g):
                        raise e
                    if not st.guards:
                        st.assume(z3.Not(g))
                    continue
                if st.decide(g, "leaf raises %s" % cls.__name__):
                    raise PyRaise(cls, e.args)
            if lr.ok_value is None:
                raise PathCut("all leaves raise")
            r = lr.ok_value
            if isinstance(r, FV) and len(r.values) == 2 and all(isinstance(x, bool) for x in r.values):
                return fv_apply(lambda x: x, r)
            return r
        except TooManyLeaves:
            # concretise the widest operand by forking and retry
            widest = max((a for a in args if isinstance(a, FV)), key=lambda a: len(a.values))
            conc = self.concretize(widest, st)
            args = [conc if a is widest else a for a in args]
            return self.lift_raise(f, args, st)

    def concretize(self, v, st):
        if not isinstance(v, FV):
            return v
        for g, x in v.leaves[:-1]:
            if st.decide(g, "concretize"):
                return x
        return v.leaves[-1][1]

    # -- operators ----------------------------------------------------------------------------
    def ex_UnaryOp(self, node, frame, st):
        v = self.eval(node.operand, frame, st)
        if isinstance(node.op, ast.Not):
            c = self.cond_z(v, st)
            if isinstance(c, bool):
                return not c
            return mk_bool(z3.Not(c))
        if isinstance(node.op, ast.USub):
            return self.lift_raise(lambda x: di_neg(x) if isinstance(x, DI) else -x, [to_num(v)], st)
        if isinstance(node.op, ast.UAdd):
            return v
        raise Unsupported("unary operator")

    def ex_BoolOp(self, node, frame, st):
        is_and = isinstance(node.op, ast.And)
        vals = node.values
        cur = self.eval(vals[0], frame, st)
        for nxt in vals[1:]:
            c = self.cond_z(cur, st)
            if isinstance(c, bool):
                if c == is_and:
                    cur = self.eval(nxt, frame, st)
                    continue
                return cur
            c = z3.simplify(c)
            if z3.is_true(c) or z3.is_false(c):
                if z3.is_true(c) == is_and:
                    cur = self.eval(nxt, frame, st)
                    continue
                return cur
            g = c if is_and else z3.Not(c)
            try:
                rhs = self.guarded(g, lambda: self.eval(nxt, frame, st), st)
                merged_ok = True
            except NeedFork:
                if st.guards:
                    raise
                merged_ok = False
            if merged_ok:
                # value-level merge: cur if (cur is decisive) else rhs
                try:
                    cur = self.merge_values(g, rhs, cur)
                except NeedFork:
                    if st.guards:
                        raise
                    if st.decide(g, "boolop"):
                        cur = rhs
                    else:
                        return cur
                continue
            if st.decide(g, "boolop"):
                cur = self.eval(nxt, frame, st)
            else:
                return cur
        return cur

    def ex_IfExp(self, node, frame, st):
        t = self.eval(node.test, frame, st)
        c = self.cond_z(t, st)
        if isinstance(c, bool):
            return self.eval(node.body if c else node.orelse, frame, st)
        c = z3.simplify(c)
        if z3.is_true(c) or z3.is_false(c):
            return self.eval(node.body if z3.is_true(c) else node.orelse, frame, st)
        try:
            a = self.guarded(c, lambda: self.eval(node.body, frame, st), st)
            b = self.guarded(z3.Not(c), lambda: self.eval(node.orelse, frame, st), st)
            return self.merge_values(c, a, b)
        except NeedFork:
            if st.guards:
                raise
        if st.decide(c, "ifexp"):
            return self.eval(node.body, frame, st)
        return self.eval(node.orelse, frame, st)

    def ex_BinOp(self, node, frame, st):
        l = self.eval(node.left, frame, st)
        r = self.eval(node.right, frame, st)
        return self.binop(node.op, l, r, st)

    def binop(self, op, l, r, st):
        l, r = to_num(l), to_num(r)
        from .models import SFloat, float_real

        if isinstance(l, SFloat) or isinstance(r, SFloat):
            if isinstance(l, DI) or isinstance(r, DI) or isinstance(l, (str, SStr)) or isinstance(r, (str, SStr)):
                raise PyRaise(TypeError, ("unsupported operand types",))
            (a, na), (b, nb) = float_real(l), float_real(r)
            nf = z3.Or(na, nb)
            if isinstance(op, ast.Add):
                return SFloat(a + b, nf)
            if isinstance(op, ast.Sub):
                return SFloat(a - b, nf)
            if isinstance(op, ast.Mult):
                return SFloat(a * b, nf)
            raise Unsupported("operator on an abstract float")
        if isinstance(op, ast.Add) and (isinstance(l, SStr) or isinstance(r, SStr)):
            if isinstance(l, (str, SStr)) and isinstance(r, (str, SStr)):
                return S.concat(l, r)
            if isinstance(l, FV) or isinstance(r, FV):
                for x in (l, r):
                    if isinstance(x, FV) and not all(isinstance(v, str) for v in x.values):
                        bad = fv_guard_of(x, lambda v: not isinstance(v, str))
                        if st.decide(bad, "concatenation of non-str"):
                            raise PyRaise(TypeError, ("can only concatenate str",))
                return S.concat(l, r)
            raise PyRaise(TypeError, ("can only concatenate str",))
        if isinstance(op, ast.Add) and isinstance(l, GList):
            raise Unsupported("guarded list concatenation")
        if isinstance(op, ast.Mod) and isinstance(l, (str,)) and not is_concrete(r):
            raise Unsupported("%-formatting with symbolic arguments")
        if isinstance(l, SInt) or isinstance(r, SInt):
            return self.int_binop(op, l, r)
        if isinstance(l, (SStr, SBool)) or isinstance(r, (SStr, SBool)):
            raise Unsupported("binary operator on abstract value")
        f = lambda a, b: concrete_binop(op, a, b)
        return self.lift_raise(f, [l, r], st)

    def fv_to_abstract_str(self, v):
        if isinstance(v, FV):
            if all(isinstance(x, str) for x in v.values):
                t = lit(v.leaves[-1][1])
                for g, x in reversed(v.leaves[:-1]):
                    t = z3.If(g, lit(x), t)
                return mk_str(t)
            raise PyRaise(TypeError, ("can only concatenate str",))
        return v

    def int_binop(self, op, l, r):
        zi = lambda x: x.z if isinstance(x, SInt) else z3.IntVal(x)
        if not all(isinstance(x, (int, SInt)) for x in (l, r)):
            raise Unsupported("mixed symbolic int arithmetic")
        if isinstance(op, ast.Add):
            return SInt(zi(l) + zi(r))
        if isinstance(op, ast.Sub):
            return SInt(zi(l) - zi(r))
        if isinstance(op, ast.Mult):
            return SInt(zi(l) * zi(r))
        raise Unsupported("symbolic int operator")

    def ex_Compare(self, node, frame, st):
        left = self.eval(node.left, frame, st)
        result = None
        for op, rn in zip(node.ops, node.comparators):
            if result is not None:
                c = self.cond_z(result, st)
                if isinstance(c, bool) and not c:
                    return False
            right = self.eval(rn, frame, st)
            r = self.compare(op, left, right, st)
            if result is None:
                result = r
            else:
                a, b = self.cond_z(result, st), self.cond_z(r, st)
                za = z3.BoolVal(a) if isinstance(a, bool) else a
                zb = z3.BoolVal(b) if isinstance(b, bool) else b
                result = mk_bool(z3.And(za, zb))
            left = right
        return result

    def compare(self, op, l, r, st):
        l, r = to_num(l), to_num(r)
        from .models import SFloat, float_real

        if (isinstance(l, SFloat) or isinstance(r, SFloat)) and isinstance(op, (ast.Eq, ast.NotEq, ast.Lt, ast.LtE, ast.Gt, ast.GtE)):
            if l is None or r is None or isinstance(l, (str, SStr)) or isinstance(r, (str, SStr)):
                if isinstance(op, ast.Eq):
                    return False
                if isinstance(op, ast.NotEq):
                    return True
                raise PyRaise(TypeError, ("ordering of float and non-number",))
            (a, na), (b, nb) = float_real(l), float_real(r)
            fin = z3.And(z3.Not(na), z3.Not(nb))
            rel = {ast.Eq: a == b, ast.NotEq: a != b, ast.Lt: a < b, ast.LtE: a <= b, ast.Gt: a > b, ast.GtE: a >= b}[type(op)]
            if isinstance(op, ast.NotEq):
                return mk_bool(z3.Or(z3.Not(fin), rel))  # nan != x is True
            return mk_bool(z3.And(fin, rel))
        if isinstance(op, (ast.Is, ast.IsNot)):
            neg = isinstance(op, ast.IsNot)
            if isinstance(l, FV) or isinstance(r, FV):
                res = fv_apply(lambda a, b: a is b, l, r)
            elif is_sym(l) or is_sym(r):
                # an abstract str/bool/int is never None/True/False *object* unless compared so
                if l is None or r is None:
                    res = False
                else:
                    raise Unsupported("identity comparison of abstract values")
            else:
                res = l is r
            return self.negate(res) if neg else res
        if isinstance(op, (ast.In, ast.NotIn)):
            res = self.contains(r, l, st)
            return self.negate(res) if isinstance(op, ast.NotIn) else res
        if isinstance(op, (ast.Eq, ast.NotEq)):
            res = self.equals(l, r, st)
            return self.negate(res) if isinstance(op, ast.NotEq) else res
        # ordering
        if isinstance(l, SInt) or isinstance(r, SInt):
            zi = lambda x: x.z if isinstance(x, SInt) else z3.IntVal(x)
            f = {ast.Lt: operator.lt, ast.LtE: operator.le, ast.Gt: operator.gt, ast.GtE: operator.ge}[type(op)]
            return mk_bool(f(zi(l), zi(r)))
        if is_sym(l) and not isinstance(l, FV) or is_sym(r) and not isinstance(r, FV):
            raise Unsupported("ordering comparison of abstract values")
        return self.lift_raise(lambda a, b: concrete_order(op, a, b), [l, r], st)

    def negate(self, v):
        if isinstance(v, bool):
            return not v
        if isinstance(v, SBool):
            return mk_bool(z3.Not(v.z))
        raise Unsupported("negation of %r" % (v,))

    def equals(self, l, r, st):
        if isinstance(l, SObj) or isinstance(r, SObj):
            if isinstance(l, SObj):
                eqm = l.cls.lookup("__eq__")
                if eqm is not None:
                    return self.call_function(eqm, [l, r], {}, st)
            if isinstance(r, SObj):
                eqm = r.cls.lookup("__eq__")
                if eqm is not None:
                    return self.call_function(eqm, [r, l], {}, st)
            return l is r
        if isinstance(l, (GList, SMap, SSeq)) or isinstance(r, (GList, SMap, SSeq)):
            if isinstance(l, SMap) and isinstance(r, SMap):
                return mk_bool(z3.And(l.dom == r.dom, S.maps_agree(l, r)))
            if isinstance(l, GList) and isinstance(r, GList):
                z = self.keyed_glists_equal(l, r, st)
                if z is not None:
                    return mk_bool(z)
            raise Unsupported("equality of symbolic containers")
        if isinstance(l, (list, tuple, dict)) and not is_concrete(l) or isinstance(r, (list, tuple, dict)) and not is_concrete(r):
            if type(l) is type(r) and isinstance(l, (list, tuple)):
                if len(l) != len(r):
                    return False
                parts = [self.cond_z(self.equals(a, b, st), st) for a, b in zip(l, r)]
                return mk_bool(_and([z3.BoolVal(p) if isinstance(p, bool) else p for p in parts]))
            raise Unsupported("equality of containers with symbolic content")
        if isinstance(l, S.SCat) or isinstance(r, S.SCat):
            other = r if isinstance(l, S.SCat) else l
            sc = l if isinstance(l, S.SCat) else r
            if isinstance(other, str) and other == "":
                e = S.scat_is_empty(sc)
                if e is not None:
                    return e
            z = S.structural_eq(l, r, eq_z3) if isinstance(l, (S.SCat, str, FV)) and isinstance(r, (S.SCat, str, FV)) else None
            if z is not None:
                return mk_bool(z)
            z = eq_z3(l, r)
            S.EQ_REG[z.get_id()] = (z, l, r)
            return mk_bool(z)
        return mk_bool(eq_z3(l, r))

    def keyed_glists_equal(self, l, r, st):
        """
        equality of two sequences with conditionally present elements, both filtered from the
        same table: item i of either is a tuple whose first component is the concrete key k_i, the
        k_i pairwise distinct.  Elements at different table positions are then never equal and the
        order of the survivors is the table order in both, so the sequences are equal iff they
        keep the same positions and agree on the kept elements.  None when the shape differs.
        """
        if type(l) is not type(r) or len(l.items) != len(r.items):
            return None
        keys = []
        for (_, a), (_, b) in zip(l.items, r.items):
            if not (isinstance(a, tuple) and isinstance(b, tuple) and len(a) == len(b) and len(a) >= 1
                    and isinstance(a[0], str) and a[0] == b[0]):
                return None
            keys.append(a[0])
        if len(set(keys)) != len(keys):
            return None
        conj = []
        for (g, a), (h, b) in zip(l.items, r.items):
            conj.append(g == h)
            parts = [self.cond_z(self.equals(x, y, st), st) for x, y in zip(a[1:], b[1:])]
            conj.append(z3.Implies(g, _and([z3.BoolVal(p) if isinstance(p, bool) else p for p in parts])))
        return z3.simplify(_and(conj))

    def contains(self, container, item, st):
        if isinstance(container, SMap):
            if isinstance(item, FV):
                return mk_bool(_or([_and([g, container.has(x)]) for g, x in item.leaves]))
            if not isinstance(item, (str, SStr)):
                return False
            return mk_bool(container.has(item))
        if isinstance(container, (dict, list, tuple, set, frozenset)) or type(container).__name__ in ("dict_keys", "odict_keys", "dict_values"):
            elems = list(container)
            if isinstance(container, (list, tuple)) and not is_concrete(container):
                parts = [self.cond_z(self.equals(item, e, st), st) for e in elems]
                return mk_bool(_or([z3.BoolVal(p) if isinstance(p, bool) else p for p in parts]))
            if isinstance(item, SStr):
                return mk_bool(_or([z3.simplify(item.z == lit(e)) for e in elems if isinstance(e, str)]))
            if isinstance(item, FV):
                return fv_apply(lambda x: any(concrete_eq(x, e) for e in elems), item)
            if isinstance(item, (SBool, SInt)):
                raise Unsupported("membership of abstract value")
            if isinstance(item, DI):
                return any(concrete_eq(item, to_num(e)) for e in elems)
            try:
                return item in container
            except TypeError:
                raise PyRaise(TypeError, ("unhashable",))
        if isinstance(container, OpaqueObjList):
            if isinstance(item, SObj):
                eqm = item.cls.lookup("__eq__")
                if eqm is None:
                    raise Unsupported("membership by identity in an opaque list")
                # the comparison with each (unknown) element must be total: the class's __eq__
                # contract is consulted by the caller's verification of __eq__ itself
                st.events.append(("opaque-membership", container.name))
                return fresh_bool("in_%s" % container.name)
            raise Unsupported("membership of a non-object in an opaque list")
        if isinstance(container, GList):
            parts = []
            for g, e in container.items:
                c = self.cond_z(self.equals(item, e, st), st)
                parts.append(_and([g, z3.BoolVal(c) if isinstance(c, bool) else c]))
            return mk_bool(_or(parts))
        if isinstance(container, str):
            if isinstance(item, str):
                return item in container
            if isinstance(item, FV):
                return fv_apply(lambda x: x in container, item)
            raise Unsupported("substring test with abstract needle")
        if isinstance(container, FV):
            if isinstance(item, (SStr, SInt)):
                parts = []
                for g, leaf in container.leaves:
                    c = self.cond_z(self.contains(leaf, item, st), st)
                    parts.append(_and([g, z3.BoolVal(c) if isinstance(c, bool) else c]))
                return mk_bool(_or(parts))
            return self.lift_raise(lambda c, x: x in c, [container, item], st)
        if isinstance(container, SStr):
            if isinstance(item, str):
                return mk_bool(S.contains(container, item))
            raise Unsupported("substring test on abstract strings")
        if isinstance(container, SObj):
            raise Unsupported("membership in object")
        raise Unsupported("membership in %s" % type(container).__name__)

    # -- comprehensions -------------------------------------------------------------------------
    def comp_items(self, node, frame, st, guarded_ok=False):
        """
        elements of a comprehension.  With guarded_ok (list comprehensions and generator
        expressions) an element whose `if` clauses are symbolic is kept as a conditionally present
        element (the same representation `for ...: if ...: out.append(...)` produces), so a
        comprehension over a constant table stays on one path; otherwise the clause is a fork.
        """
        out = []
        sub = Frame(None, {}, frame)
        # keep function identity for module lookups
        sub.func = frame.func
        active = []

        def leaf():
            if isinstance(node, ast.DictComp):
                v = (self.eval(node.key, sub, st), self.eval(node.value, sub, st))
            else:
                v = self.eval(node.elt, sub, st)
            out.append((_and(active) if active else z3.BoolVal(True), v))

        def conds(gen, gi, k):
            if k == len(gen.ifs):
                return rec(gi + 1)
            c = self.cond_z(self.eval(gen.ifs[k], sub, st), st)
            if not isinstance(c, bool):
                c = z3.simplify(c)
                if z3.is_true(c):
                    c = True
                elif z3.is_false(c):
                    c = False
            if c is True:
                return conds(gen, gi, k + 1)
            if c is False:
                return None
            if guarded_ok:
                n = len(out)
                active.append(c)
                try:
                    self.guarded(c, lambda: conds(gen, gi, k + 1), st)
                    return None
                except NeedFork:
                    del out[n:]
                    if st.guards:
                        raise
                finally:
                    active.pop()
            if st.decide(c, "comprehension-if"):
                return conds(gen, gi, k + 1)
            return None

        def rec(gi):
            if gi == len(node.generators):
                return leaf()
            gen = node.generators[gi]
            it = self.eval(gen.iter, sub, st)
            pairs = None
            if guarded_ok and isinstance(it, GList) and any(not z3.is_true(g) for g, _ in it.items):
                # a source with conditionally present elements: each element of the result is
                # present under the guard of its source element (and its own `if` clauses)
                try:
                    pairs = [(True, x) for x in self.compact_glist(it, st)]
                except Unsupported:
                    pairs = [(True if z3.is_true(g) else g, x) for g, x in it.items]
            if pairs is None:
                pairs = [(True, x) for x in self.iterate(it, st)]
            for g, x in pairs:
                if g is True:
                    self.assign(gen.target, x, sub, st)
                    conds(gen, gi, 0)
                    continue
                n = len(out)
                active.append(g)
                forked = False
                try:
                    def body(x=x):
                        self.assign(gen.target, x, sub, st)
                        conds(gen, gi, 0)

                    self.guarded(g, body, st)
                except NeedFork:
                    del out[n:]
                    if st.guards:
                        raise
                    forked = True
                finally:
                    active.pop()
                if forked and st.decide(g, "element present?"):
                    self.assign(gen.target, x, sub, st)
                    conds(gen, gi, 0)

        rec(0)
        if all(z3.is_true(g) for g, _ in out):
            return [v for _, v in out]
        return GList([(z3.simplify(g), v) for g, v in out])

    def ex_ListComp(self, node, frame, st):
        return self.comp_items(node, frame, st, guarded_ok=True)

    def ex_GeneratorExp(self, node, frame, st):
        return self.comp_items(node, frame, st, guarded_ok=True)  # evaluated eagerly (side-effect-free bodies)

    def ex_SetComp(self, node, frame, st):
        items = self.comp_items(node, frame, st)
        if all(is_concrete(x) for x in items):
            return set(items)
        raise Unsupported("set comprehension with symbolic elements")

    def ex_DictComp(self, node, frame, st):
        d = {}
        for k, v in self.comp_items(node, frame, st):
            if not is_concrete(k):
                raise Unsupported("dict comprehension with symbolic key")
            d[k] = v
        return d

    def ex_Lambda(self, node, frame, st):
        fd = ast.FunctionDef(
            name="<lambda>",
            args=node.args,
            body=[ast.Return(value=node.body, lineno=node.lineno, col_offset=0)],
            decorator_list=[],
            lineno=node.lineno,
            col_offset=0,
        )
        env = frame.func.module if frame.func else None
        return PyFunc(fd, env, "<lambda>", None, frame)

    def compact_glist(self, gl, st):
        """
        plain element list of a guarded list: consecutive items whose guards are pairwise
        exclusive and jointly exhaustive under the path condition form one element (the merge
        of their values); anything else is outside the subset
        """
        items = gl.items
        out = []
        i = 0
        while i < len(items):
            g, x = items[i]
            if z3.is_true(g):
                out.append(x)
                i += 1
                continue
            group = [(g, x)]
            j = i + 1
            while st.feasible(z3.Not(_or([h for h, _ in group]))):
                if j >= len(items) or z3.is_true(items[j][0]):
                    raise Unsupported("iteration over a list with conditionally present elements")
                group.append(items[j])
                j += 1
            for a in range(len(group)):
                for b in range(a + 1, len(group)):
                    if st.feasible(z3.And(group[a][0], group[b][0])):
                        raise Unsupported("iteration over a list with conditionally present elements")
            v = group[-1][1]
            for h, y in reversed(group[:-1]):
                v = self.merge_values(h, y, v)
            out.append(v)
            i = j
        return out

    def iterate(self, it, st, fork_ok=True):
        if isinstance(it, (list, tuple)):
            return list(it)
        if isinstance(it, GList):
            try:
                return self.compact_glist(it, st)
            except Unsupported:
                # a few conditionally present elements: one path per combination of presences
                open_ = [g for g, _ in it.items if not z3.is_true(g)]
                if st.guards or len(open_) > 6 or not fork_ok:
                    raise
                return [x for g, x in it.items if z3.is_true(g) or st.decide(g, "element present?")]
        if type(it).__name__ == "SymSet":
            st.events.append(("hash-order", "iteration over a set (order depends on the hash seed)"))
            return self.compact_glist(GList(it.items), st)
        if isinstance(it, dict):
            return list(it.keys())
        if isinstance(it, str):
            return list(it)
        if isinstance(it, (set, frozenset)):
            st.events.append(("hash-order", "iteration over a set (order depends on the hash seed)"))
            try:
                return sorted(it)
            except TypeError:
                return list(it)
        if isinstance(it, FV):
            conc = self.concretize(it, st)
            return self.iterate(conc, st)
        if isinstance(it, S.SplitResult):
            return it.as_seq_or_list(st)
        if isinstance(it, (SStr, SMap, SSeq)):
            raise Unsupported("iteration over %s" % type(it).__name__)
        if isinstance(it, (SObj, PyFunc)):
            raise Unsupported("iteration over object")
        try:
            return list(it)
        except TypeError:
            raise PyRaise(TypeError, ("not iterable",))

    # -- calls ------------------------------------------------------------------------------------
    def ex_Call(self, node, frame, st):
        fn = self.eval(node.func, frame, st)
        args = []
        for a in node.args:
            if isinstance(a, ast.Starred):
                args.extend(self.iterate(self.eval(a.value, frame, st), st))
            else:
                args.append(self.eval(a, frame, st))
        kwargs = {}
        for k in node.keywords:
            if k.arg is None:
                d = self.eval(k.value, frame, st)
                if not isinstance(d, dict):
                    raise Unsupported("** of non-dict")
                kwargs.update(d)
            else:
                kwargs[k.arg] = self.eval(k.value, frame, st)
        return self.call(fn, args, kwargs, st, node)

    def call(self, fn, args, kwargs, st, node=None):
        if isinstance(fn, FV):
            # a finite choice of callables (e.g. `cls = A if c else B`): one fork per callable
            if st.guards:
                raise NeedFork("call of a conditionally chosen callable")
            vals = list(fn.values)
            for k, v in enumerate(vals):
                if k == len(vals) - 1 or st.decide(fv_guard_of(fn, lambda x, v=v: x is v), "which callable"):
                    return self.call(v, args, kwargs, st, node)
        if isinstance(fn, BoundMethod):
            return self.call_function(fn.func, [fn.recv] + args, kwargs, st)
        if isinstance(fn, PyFunc):
            return self.call_function(fn, args, kwargs, st)
        if isinstance(fn, PyClass):
            return self.instantiate(fn, args, kwargs, st)
        if isinstance(fn, HostMethod):
            return self.call_method(fn.recv, fn.name, args, kwargs, st)
        from . import models

        return models.call_host(self, fn, args, kwargs, st)

    def instantiate(self, cls, args, kwargs, st):
        obj = SObj(cls)
        init = cls.lookup("__init__")
        if init is not None:
            self.call_function(init, [obj] + args, kwargs, st)
        elif args or kwargs:
            raise PyRaise(TypeError, ("takes no arguments",))
        return obj

    def call_function(self, f, args, kwargs, st):
        if f.decorators:
            raise Unsupported("decorated function %s (%s)" % (f.qualname, ", ".join(f.decorators)))
        hook = self.hooks.get("on_call")
        if hook is not None:
            handled, value = hook(self, st, f, args, kwargs)
            if handled:
                return value
        return self.run_body(f, args, kwargs, st)

    def bind_args(self, f, args, kwargs, st):
        a = f.node.args
        params = [p.arg for p in getattr(a, "posonlyargs", [])] + [p.arg for p in a.args]
        locs = {}
        args = list(args)
        if len(args) > len(params) and a.vararg is None:
            raise PyRaise(TypeError, ("too many positional arguments",))
        for p, v in zip(params, args):
            locs[p] = v
        if a.vararg is not None:
            locs[a.vararg.arg] = tuple(args[len(params):])
        defaults = a.defaults
        dstart = len(params) - len(defaults)
        kw = dict(kwargs)
        for i, p in enumerate(params):
            if p in locs:
                if p in kw:
                    raise PyRaise(TypeError, ("multiple values for argument %s" % p,))
                continue
            if p in kw:
                locs[p] = kw.pop(p)
            elif i >= dstart:
                locs[p] = self.eval(defaults[i - dstart], Frame(f, {}, f.closure), st)
            else:
                raise PyRaise(TypeError, ("missing argument %s" % p,))
        for p, d in zip(a.kwonlyargs, a.kw_defaults):
            if p.arg in kw:
                locs[p.arg] = kw.pop(p.arg)
            elif d is not None:
                locs[p.arg] = self.eval(d, Frame(f, {}, f.closure), st)
            else:
                raise PyRaise(TypeError, ("missing keyword argument %s" % p.arg,))
        if a.kwarg is not None:
            locs[a.kwarg.arg] = kw
        elif kw:
            raise PyRaise(TypeError, ("unexpected keyword argument %s" % sorted(kw)[0],))
        return locs

    def run_body(self, f, args, kwargs, st):
        if len(self.call_stack) > 40:
            raise Unsupported("call depth exceeded (recursion?)")
        locs = self.bind_args(f, args, kwargs, st)
        locs["__guard_base__"] = len(st.guards)
        frame = Frame(f, locs, f.closure)
        self.call_stack.append(f.qualname)
        try:
            try:
                self.exec_block(f.node.body, frame, st)
            except ReturnSig as r:
                return r.value
            return None
        finally:
            self.call_stack.pop()

    # -- methods of modelled builtin types ------------------------------------------------------
    def call_method(self, recv, name, args, kwargs, st):
        from . import models

        hook = self.hooks.get("method_call")
        if hook is not None:
            handled, value = hook(self, st, recv, name, args, kwargs)
            if handled:
                return value

        return models.call_method(self, recv, name, args, kwargs, st)

    def to_str(self, v, st):
        from . import models

        return models.builtin_str(self, v, st)


def _import_leaf(name):
    import importlib

    return importlib.import_module(name)


def _is_host_module(obj):
    import types

    return isinstance(obj, types.ModuleType)


# --------------------------------------------------------------------------------------------
# concrete leaf operations (host CPython semantics, Decimals as certified enclosures)


def concrete_binop(op, a, b):
    if isinstance(a, DI) or isinstance(b, DI):
        if isinstance(a, float) or isinstance(b, float):
            raise TypeError("unsupported operand type(s): 'decimal.Decimal' and 'float'")
        if isinstance(a, (str, list, tuple, type(None))) or isinstance(b, (str, list, tuple, type(None))):
            raise TypeError("unsupported operand type(s) for Decimal")
        x, y = _as_di(a), _as_di(b)
        if isinstance(op, ast.Add):
            return di_add(x, y)
        if isinstance(op, ast.Sub):
            return di_add(x, y, sub=True)
        if isinstance(op, ast.Mult):
            return di_mul(x, y)
        if isinstance(op, ast.Pow):
            return di_pow(x, y)
        if isinstance(op, ast.Div):
            if y.lo <= 0 <= y.hi:
                if y.lo == y.hi:
                    raise decimal.DivisionByZero()
                raise NumericUndecided("division by an enclosure containing zero")
            c = [x.lo / y.lo, x.lo / y.hi, x.hi / y.lo, x.hi / y.hi]
            lo, hi = min(c), max(c)
            if x.exact and y.exact and lo == hi:
                # exact iff representable with <= 28 digits at the ideal exponent
                for scale in range(max(0, x.scale - y.scale), 60):
                    from .sym import _fits

                    if _fits(lo, scale):
                        return DI(lo, lo, scale=scale)
            from .sym import _widen

            lo, hi = _widen(lo, hi)
            return DI(lo, hi)
        raise NumericUndecided("Decimal operator %s" % type(op).__name__)
    f = {
        ast.Add: operator.add,
        ast.Sub: operator.sub,
        ast.Mult: operator.mul,
        ast.Div: operator.truediv,
        ast.FloorDiv: operator.floordiv,
        ast.Mod: operator.mod,
        ast.Pow: operator.pow,
        ast.BitAnd: operator.and_,
        ast.BitOr: operator.or_,
        ast.BitXor: operator.xor,
        ast.LShift: operator.lshift,
        ast.RShift: operator.rshift,
    }.get(type(op))
    if f is None:
        raise Unsupported("operator %s" % type(op).__name__)
    return f(a, b)


def concrete_order(op, a, b):
    if isinstance(a, DI) or isinstance(b, DI):
        if a is None or b is None or isinstance(a, str) or isinstance(b, str):
            raise TypeError("'<' not supported between Decimal and %s" % type(b).__name__)
        if isinstance(a, float) and a != a or isinstance(b, float) and b != b:
            return False
        c = di_cmp(_as_di(a), _as_di(b))
        return {ast.Lt: c < 0, ast.LtE: c <= 0, ast.Gt: c > 0, ast.GtE: c >= 0}[type(op)]
    f = {ast.Lt: operator.lt, ast.LtE: operator.le, ast.Gt: operator.gt, ast.GtE: operator.ge}[type(op)]
    return f(a, b)
