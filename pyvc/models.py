"""
pyvc.models -- semantics of builtins, host callables and methods of builtin types on
symbolic values.  Anything not modelled raises Unsupported (the function's obligations then
become *undecided*, never proved and never a violation).
"""
from __future__ import annotations

import builtins
import collections
import copy as _copy
import decimal
import json
import types
from fractions import Fraction

import z3

from . import strings as S
from .interp import (
    BoundMethod,
    ExcValue,
    GList,
    HostMethod,
    ModuleEnv,
    NeedFork,
    PyClass,
    PyFunc,
    PyRaise,
    ROUNDINGS,
    UNBOUND,
    Unsupported,
    is_concrete,
    to_num,
)
from .sym import (
    DI,
    FV,
    NumericUndecided,
    SBool,
    SInt,
    SMap,
    SObj,
    SSeq,
    SStr,
    _and,
    _as_di,
    _or,
    concrete_eq,
    di_cmp,
    di_from_float,
    di_max,
    di_min,
    di_quantize,
    di_to_float,
    fresh_name,
    fv_apply,
    fv_guard_of,
    is_sym,
    leaves_of,
    lit,
    mk_bool,
    mk_str,
    regroup,
    str_z,
)


class SFloat(object):
    """an abstract float (float(s) of an abstract string or arithmetic on it): z3 Real value
    + a flag for nan/inf; arithmetic is over the reals (double rounding of abstract operands is
    not modelled: results are only compared, never reported)"""

    def __init__(self, z, nonfinite):
        self.z = z
        self.nonfinite = nonfinite


def float_real(v):
    """z3 Real term of a concrete / finite-choice / abstract float, plus non-finite condition"""
    from fractions import Fraction as _F

    if isinstance(v, SFloat):
        return v.z, v.nonfinite
    if isinstance(v, bool):
        return z3.RealVal(int(v)), z3.BoolVal(False)
    if isinstance(v, (int, float)):
        if isinstance(v, float) and (v != v or v in (float("inf"), float("-inf"))):
            return z3.RealVal(0), z3.BoolVal(True)
        f = _F(v)
        return z3.RealVal(str(f.numerator)) / z3.RealVal(str(f.denominator)), z3.BoolVal(False)
    if isinstance(v, FV):
        ls = v.leaves
        t, nf = float_real(ls[-1][1])
        for g, x in reversed(ls[:-1]):
            tx, nx = float_real(x)
            t = z3.If(g, tx, t)
            nf = z3.If(g, nx, nf)
        return t, nf
    raise Unsupported("no real view of %r" % (type(v).__name__,))


def di_str(d):
    """str(Decimal) for an exact enclosure"""
    if not d.exact:
        raise NumericUndecided("str() of an inexact Decimal")
    coef = d.lo * (10 ** d.scale) if d.scale >= 0 else d.lo / (10 ** (-d.scale))
    n = int(coef)
    sign = 1 if (n < 0 or (n == 0 and d.zsign == "-")) else 0
    if n == 0 and d.zsign == "?":
        raise NumericUndecided("sign of zero depends on the ambient decimal context")
    dec = decimal.Decimal((sign, tuple(int(c) for c in str(abs(n))), -d.scale))
    return str(dec)


def concrete_str(x):
    if isinstance(x, DI):
        return di_str(x)
    if x is UNBOUND:
        raise Unsupported("str of unbound")
    return str(x)


def builtin_str(eng, v, st):
    if isinstance(v, (str, SStr)):
        return v
    if isinstance(v, FV):
        return eng.lift_raise(concrete_str, [v], st)
    if isinstance(v, DI):
        return di_str(v)
    if isinstance(v, ExcValue):
        if len(v.args) == 1:
            return builtin_str(eng, v.args[0], st)
        if not v.args:
            return ""
        raise Unsupported("str of exception with several args")
    if isinstance(v, (SBool, SInt, SFloat, SMap, SObj, GList, SSeq)):
        raise Unsupported("str() of %s" % type(v).__name__)
    if is_concrete(v):
        return str(v)
    raise Unsupported("str() of container with symbolic content")


def concrete_float(x):
    if isinstance(x, DI):
        return di_to_float(x)
    return float(x)


def builtin_float(eng, v, st):
    if isinstance(v, SStr):
        if not st.decide(S.f_numeric(v.z), "float() ValueError?"):
            raise PyRaise(ValueError, ("could not convert string to float",))
        return SFloat(S.f_fval(v.z), S.f_fnan(v.z))
    if isinstance(v, (SBool, SInt, SMap, SObj, GList)):
        raise Unsupported("float() of %s" % type(v).__name__)
    if v is None:
        raise PyRaise(TypeError, ("float() argument must be a string or a real number, not 'NoneType'",))
    return eng.lift_raise(concrete_float, [to_num(v)], st)


def mk_decimal(eng, args, kwargs, st):
    if kwargs or len(args) > 1:
        raise Unsupported("Decimal() with context/kwargs")
    if not args:
        return DI(0, scale=0)
    v = to_num(args[0])

    def conv(x):
        if isinstance(x, DI):
            return x
        if isinstance(x, float):
            if x != x or x in (float("inf"), float("-inf")):
                raise NumericUndecided("non-finite Decimal")
            return di_from_float(x)
        if isinstance(x, bool):
            return DI(int(x), scale=0)
        if isinstance(x, int):
            return DI(x, scale=0)
        if isinstance(x, str):
            try:
                d = decimal.Decimal(x)
            except decimal.InvalidOperation:
                raise decimal.InvalidOperation("invalid literal")
            if not d.is_finite():
                raise NumericUndecided("non-finite Decimal")
            return DI.from_decimal(d)
        raise TypeError("conversion to Decimal")

    if isinstance(v, (SStr, SBool, SInt)):
        raise Unsupported("Decimal() of abstract value")
    return eng.lift_raise(conv, [v], st)


def do_print(eng, args, kwargs, st):
    sep = kwargs.get("sep", " ")
    end = kwargs.get("end", "\n")
    if "file" in kwargs and kwargs["file"] is not None:
        st.events.append(("print-file", kwargs["file"]))
    parts = []
    for k, a in enumerate(args):
        if k:
            parts.append(sep if sep is not None else " ")
        parts.append(builtin_str(eng, a, st))
    parts.append(end if end is not None else "\n")
    text = S.concat_all(parts)
    st.stdout.append(text)
    st.events.append(("print", text))
    return None


def do_input(eng, args, kwargs, st):
    hook = eng.hooks.get("input")
    if hook is None:
        raise Unsupported("input() without a stdin model")
    if args:
        do_print(eng, args, {"end": ""}, st)
    return hook(eng, st)


def builtin_len(eng, v, st):
    if isinstance(v, SSeq):
        return SInt(v.length)
    if isinstance(v, S.SplitResult):
        return SInt(v.length())
    if isinstance(v, GList):
        if all(z3.is_true(g) for g, _ in v.items):
            return len(v.items)
        try:
            return len(eng.compact_glist(v, st))
        except Unsupported:
            pass
        total = z3.Sum([z3.If(g, 1, 0) for g, _ in v.items])
        return SInt(total)
    if isinstance(v, FV):
        return eng.lift_raise(len, [v], st)
    if isinstance(v, (SStr, SMap, SObj)):
        raise Unsupported("len() of %s" % type(v).__name__)
    try:
        return len(v)
    except TypeError as e:
        raise PyRaise(TypeError, e.args)


def builtin_minmax(eng, which, args, kwargs, st):
    if kwargs:
        raise Unsupported("min/max with key/default")
    if len(args) == 1:
        items = eng.iterate(args[0], st)
    else:
        items = list(args)
    if not items:
        raise PyRaise(ValueError, ("empty sequence",))
    items = [to_num(x) for x in items]
    if any(isinstance(x, (SStr, SBool, SInt, SFloat)) for x in items):
        raise Unsupported("min/max of abstract values")

    def f(*xs):
        if any(isinstance(x, DI) for x in xs):
            if any(isinstance(x, float) for x in xs):
                # Decimal vs float comparisons are exact in Python 3
                pass
            ds = [_as_di(x) if not isinstance(x, DI) else x for x in xs]
            r = di_min(ds) if which == "min" else di_max(ds)
            # return the original object where it is one of the inputs
            for x, d in zip(xs, ds):
                if d is r:
                    return x
            return r
        return (min if which == "min" else max)(*xs)

    return eng.lift_raise(f, items, st)


def builtin_sorted(eng, args, kwargs, st):
    if kwargs:
        if is_concrete(args[0]) and all(is_concrete(v) or callable(v) for v in kwargs.values()):
            pass
        else:
            raise Unsupported("sorted with key on symbolic data")
    items = eng.iterate(args[0], st)
    if all(is_concrete(x) for x in items):
        if kwargs:
            raise Unsupported("sorted with key")
        try:
            return sorted(items)
        except TypeError as e:
            raise PyRaise(TypeError, e.args)
    # list of (concrete key, symbolic value) pairs with distinct keys: order decided by keys
    if all(isinstance(x, tuple) and len(x) == 2 and is_concrete(x[0]) for x in items):
        keys = [x[0] for x in items]
        if len(set(keys)) == len(keys):
            return sorted(items, key=lambda x: x[0])
    raise Unsupported("sorted() of symbolic data")


def builtin_isinstance(eng, obj, cls, st):
    classes = cls if isinstance(cls, tuple) else (cls,)
    for c in classes:
        if isinstance(c, PyClass):
            if isinstance(obj, SObj):
                k = obj.cls
                seen = [k]
                while seen:
                    x = seen.pop()
                    if x is c:
                        return True
                    seen.extend(b for b in x.bases if isinstance(b, PyClass))
            continue
        if isinstance(c, type):
            if isinstance(obj, SStr):
                if issubclass(str, c):
                    return True
                continue
            if isinstance(obj, (SBool,)):
                if c in (bool, int, object):
                    return True
                continue
            if isinstance(obj, SInt):
                if c in (int, object):
                    return True
                continue
            if isinstance(obj, DI):
                if c in (decimal.Decimal, object):
                    return True
                continue
            if isinstance(obj, SFloat):
                if c in (float, object):
                    return True
                continue
            if isinstance(obj, (SMap,)):
                if c in (dict, object):
                    return True
                continue
            if isinstance(obj, GList):
                if c in (list, object):
                    return True
                continue
            if isinstance(obj, ExcValue):
                if issubclass(obj.exc_cls, c):
                    return True
                continue
            if isinstance(obj, FV):
                r = fv_apply(lambda x: isinstance(x, c) if not isinstance(x, DI) else c in (decimal.Decimal, object), obj)
                if r is True:
                    return True
                if r is False:
                    continue
                raise Unsupported("isinstance on a finite choice of mixed types")
            if isinstance(obj, (SObj, PyFunc, PyClass)):
                if c is object:
                    return True
                continue
            if isinstance(obj, c):
                return True
    return False


def concrete_type(x):
    if isinstance(x, DI):
        return decimal.Decimal
    return type(x)


def builtin_type(eng, args, st):
    if len(args) != 1:
        raise Unsupported("type() with 3 arguments")
    v = args[0]
    if isinstance(v, SStr):
        return str
    if isinstance(v, SBool):
        return bool
    if isinstance(v, SInt):
        return int
    if isinstance(v, SFloat):
        return float
    if isinstance(v, SMap):
        return dict
    if isinstance(v, GList):
        return list
    if isinstance(v, SObj):
        return v.cls
    if isinstance(v, FV):
        return fv_apply(concrete_type, v)
    return concrete_type(v)


def do_hash(eng, v, st):
    if isinstance(v, (str, SStr)):
        st.events.append(("hash", "hash() of a string (seed dependent)"))
        return S.pyhash(v)
    if isinstance(v, SObj):
        h = v.cls.lookup("__hash__")
        if h is not None:
            return eng.call_function(h, [v], {}, st)
        raise Unsupported("identity hash")
    if isinstance(v, FV):
        raise Unsupported("hash of finite choice")
    if is_concrete(v):
        if isinstance(v, (int, float, bool, type(None))):
            return hash(v)
        st.events.append(("hash", "hash() of %s" % type(v).__name__))
        raise Unsupported("hash of %s" % type(v).__name__)
    raise Unsupported("hash of symbolic container")


def call_host(eng, fn, args, kwargs, st):
    """call of a host (CPython) callable"""
    hook = eng.hooks.get("host_call")
    if hook is not None:
        handled, value = hook(eng, st, fn, args, kwargs)
        if handled:
            return value
    if fn is decimal.Decimal:
        return mk_decimal(eng, args, kwargs, st)
    if fn is decimal.getcontext and not args and not kwargs:
        # the thread's decimal context is ghost state: an opaque token naming which context is
        # current ("ambient" = the caller's); numeric results never depend on it (enclosures hold
        # for every context with prec >= 28), the frame condition is that it is the caller's again
        # whenever the function is left
        return DecimalContextToken(st.ghost.get("decimal-context", "ambient"))
    if fn is decimal.setcontext and len(args) == 1 and not kwargs:
        c = args[0]
        if isinstance(c, DecimalContextToken):
            name = c.name
        elif c is decimal.DefaultContext:
            name = "a copy of decimal.DefaultContext"
        elif c is decimal.BasicContext or c is decimal.ExtendedContext or isinstance(c, decimal.Context):
            name = "another context (%s)" % type(c).__name__
        else:
            raise Unsupported("setcontext(%r)" % (type(c).__name__,))
        old = st.ghost.get("decimal-context", "ambient")
        st.ghost["decimal-context"] = name

        def undo():
            st.ghost["decimal-context"] = old

        st.log(undo)
        return None
    if fn is builtins.print:
        return do_print(eng, args, kwargs, st)
    if fn is builtins.input or getattr(fn, "__name__", "") == "raw_input":
        return do_input(eng, args, kwargs, st)
    if fn is builtins.float:
        if not args:
            return 0.0
        return builtin_float(eng, args[0], st)
    if fn is builtins.str:
        if not args:
            return ""
        return builtin_str(eng, args[0], st)
    if fn is builtins.len:
        return builtin_len(eng, args[0], st)
    if fn is builtins.min:
        return builtin_minmax(eng, "min", args, kwargs, st)
    if fn is builtins.max:
        return builtin_minmax(eng, "max", args, kwargs, st)
    if fn is builtins.all or fn is builtins.any:
        items = eng.iterate(args[0], st)
        conds = []
        for x in items:
            c = eng.cond_z(x, st)
            conds.append(z3.BoolVal(c) if isinstance(c, bool) else c)
        return mk_bool(_and(conds) if fn is builtins.all else _or(conds))
    if fn is builtins.tuple:
        if args and isinstance(args[0], GList) and any(not z3.is_true(g) for g, _ in args[0].items):
            try:
                return tuple(eng.iterate(args[0], st, fork_ok=False))
            except Unsupported:
                # conditionally present elements: kept as a guarded sequence (that it is a tuple
                # rather than a list is not tracked)
                return GTuple(args[0].items)
        return tuple(eng.iterate(args[0], st)) if args else ()
    if fn is builtins.list:
        if args and isinstance(args[0], GList):
            return GList(args[0].items)
        return list(eng.iterate(args[0], st)) if args else []
    if fn is builtins.sorted:
        return builtin_sorted(eng, args, kwargs, st)
    if fn is builtins.isinstance:
        return builtin_isinstance(eng, args[0], args[1], st)
    if fn is builtins.type:
        return builtin_type(eng, args, st)
    if fn is builtins.hash:
        return do_hash(eng, args[0], st)
    if fn is builtins.id:
        raise Unsupported("id()")
    if fn is builtins.next:
        items = eng.iterate(args[0], st)
        if items:
            return items[0]
        if len(args) > 1:
            return args[1]
        raise PyRaise(StopIteration, ())
    if fn is builtins.iter:
        return list(eng.iterate(args[0], st))
    if fn is builtins.enumerate:
        start = args[1] if len(args) > 1 else kwargs.get("start", 0)
        return [(i + start, x) for i, x in enumerate(eng.iterate(args[0], st))]
    if fn is builtins.zip:
        return list(zip(*[eng.iterate(a, st) for a in args]))
    if fn is builtins.reversed:
        return list(reversed(eng.iterate(args[0], st)))
    if fn is builtins.filter:
        st.events.append(("one-shot-iterator", "filter() object"))
        f, it = args
        out = []
        for x in eng.iterate(it, st):
            r = x if f is None else eng.call(f, [x], {}, st)
            if eng.truth(r, st, "filter"):
                out.append(x)
        return OneShot(out)
    if fn is builtins.map:
        st.events.append(("one-shot-iterator", "map() object"))
        f = args[0]
        its = [eng.iterate(a, st) for a in args[1:]]
        return OneShot([eng.call(f, list(xs), {}, st) for xs in zip(*its)])
    if fn is builtins.getattr:
        obj, name = args[0], args[1]
        try:
            return eng.get_attr(obj, name, st)
        except PyRaise as e:
            if e.exc_cls is AttributeError and len(args) > 2:
                return args[2]
            raise
    if fn is builtins.hasattr:
        try:
            eng.get_attr(args[0], args[1], st)
            return True
        except PyRaise as e:
            if e.exc_cls is AttributeError:
                return False
            raise
    if fn is builtins.setattr:
        eng.set_attr(args[0], args[1], args[2], st)
        return None
    if fn is builtins.bool:
        if not args:
            return False
        c = eng.cond_z(args[0], st)
        return c if isinstance(c, bool) else mk_bool(c)
    if fn is builtins.dict:
        if not args and not kwargs:
            return {}
        d = {}
        if args:
            src = args[0]
            if isinstance(src, SMap):
                return src.copy()
            if isinstance(src, GList) and any(not z3.is_true(g) for g, _ in src.items) and not kwargs:
                # pairs that are conditionally present: a symbolic str -> str map
                m = SMap.empty("dict")
                ok = True
                for g, kv in src.items:
                    if not (isinstance(kv, tuple) and len(kv) == 2 and isinstance(kv[0], str)
                            and (isinstance(kv[1], (str, SStr)) or (isinstance(kv[1], FV) and all(isinstance(x, str) for x in kv[1].values)))):
                        ok = False
                        break
                    kz = str_z(kv[0])
                    m.val = z3.Store(m.val, kz, z3.If(g, str_z(kv[1]), z3.Select(m.val, kz)))
                    m.dom = z3.Store(m.dom, kz, z3.Or(g, z3.Select(m.dom, kz)))
                if ok:
                    return m
            pairs = src.items() if isinstance(src, dict) else eng.iterate(src, st)
            for k, v in pairs:
                if not is_concrete(k):
                    raise Unsupported("dict() with symbolic key")
                d[k] = v
        d.update(kwargs)
        return d
    if fn is collections.OrderedDict:
        d = collections.OrderedDict()
        if args:
            src = args[0]
            pairs = src.items() if isinstance(src, dict) else eng.iterate(src, st)
            for k, v in pairs:
                if not is_concrete(k):
                    raise Unsupported("OrderedDict() with symbolic key")
                d[k] = v
        for k, v in kwargs.items():
            d[k] = v
        return d
    if fn is builtins.set or fn is builtins.frozenset:
        if not args:
            return fn()
        items = eng.iterate(args[0], st)
        if all(is_concrete(x) for x in items):
            try:
                return fn(items)
            except TypeError as e:
                raise PyRaise(TypeError, e.args)
        return SymSet(items)
    if fn is builtins.round:
        v = to_num(args[0])
        nd = args[1] if len(args) > 1 else kwargs.get("ndigits")

        def rnd(x, n):
            if isinstance(x, DI):
                raise NumericUndecided(
                    "round(Decimal) uses the ambient decimal context's rounding mode"
                )
            return round(x, n) if n is not None else round(x)

        return eng.lift_raise(rnd, [v, nd], st)
    if fn is builtins.abs:
        v = to_num(args[0])

        def ab(x):
            if isinstance(x, DI):
                if x.lo >= 0:
                    return x if not (x.lo == 0 and x.hi == 0) else DI(0, 0, scale=x.scale, zsign="+")
                if x.hi <= 0:
                    from .sym import di_neg

                    return di_neg(x)
                return DI(0, max(-x.lo, x.hi))
            return abs(x)

        if isinstance(v, SFloat):
            return SFloat(z3.If(v.z >= 0, v.z, -v.z), v.nonfinite)
        return eng.lift_raise(ab, [v], st)
    if fn is builtins.int:
        if not args:
            return 0
        v = to_num(args[0])
        if isinstance(v, (SStr, SBool, SFloat)):
            raise Unsupported("int() of abstract value")
        if isinstance(v, SInt):
            return v

        def toint(x, *rest):
            if isinstance(x, DI):
                if not x.exact:
                    raise NumericUndecided("int() of inexact Decimal")
                return int(x.lo)
            return int(x, *rest)

        return eng.lift_raise(toint, [v] + list(args[1:]), st)
    if fn is builtins.sum:
        items = eng.iterate(args[0], st)
        acc = args[1] if len(args) > 1 else 0
        import ast as _ast

        for x in items:
            acc = eng.binop(_ast.Add(), acc, x, st)
        return acc
    if fn is builtins.repr:
        v = args[0]
        if isinstance(v, FV):
            return eng.lift_raise(lambda x: repr(x) if not isinstance(x, DI) else "Decimal('%s')" % concrete_str(x), [v], st)
        if is_concrete(v):
            return repr(v)
        raise Unsupported("repr of symbolic value")
    if fn is builtins.format:
        if all(is_concrete(a) for a in args):
            return format(*args)
        raise Unsupported("format() of symbolic value")
    if fn is builtins.range:
        if all(isinstance(a, int) for a in args):
            return list(range(*args))
        raise Unsupported("range with symbolic bounds")
    if fn is _copy.copy or fn is _copy.deepcopy:
        v = args[0]
        if isinstance(v, SMap):
            return v.copy()
        if isinstance(v, GList):
            return GList(v.items)
        if isinstance(v, (SObj,)):
            raise Unsupported("copy of object")
        if isinstance(v, dict):
            return type(v)(v) if fn is _copy.copy else _copy.deepcopy(v) if is_concrete(v) else type(v)(v)
        if isinstance(v, list):
            return list(v)
        return v
    if fn is json.dumps:
        hook = eng.hooks.get("json_dumps")
        if hook is not None:
            return hook(eng, st, args, kwargs)
        if all(is_concrete(a) for a in args):
            return json.dumps(*args, **kwargs)
        raise Unsupported("json.dumps of symbolic data")
    if isinstance(fn, type) and issubclass(fn, BaseException):
        return ExcValue(fn, args)
    # generic host call: only on fully concrete arguments, and only for known-pure callables
    if all(is_concrete(a) for a in args) and all(is_concrete(v) for v in kwargs.values()):
        if _pure_host(fn):
            try:
                return fn(*args, **kwargs)
            except Exception as e:  # noqa
                raise PyRaise(type(e), e.args)
    raise Unsupported("call of host callable %r" % (getattr(fn, "__qualname__", None) or fn,))


def _pure_host(fn):
    mod = getattr(fn, "__module__", None)
    name = getattr(fn, "__qualname__", getattr(fn, "__name__", ""))
    if mod in ("builtins", "math", "operator", "string", "fractions", "collections", "itertools", "functools") and name not in (
        "exec",
        "eval",
        "open",
        "compile",
        "__import__",
        "lru_cache",
        "cache",
    ):
        return True
    if mod == "re" or mod == "_sre" or (mod or "").startswith("re."):
        return True
    if mod in ("json", "json.encoder", "json.decoder"):
        return True
    if mod == "decimal" and name in ("Decimal",):
        return True
    if isinstance(fn, types.BuiltinFunctionType) and getattr(fn, "__self__", None) is not None:
        s = fn.__self__
        if isinstance(s, (str, tuple, frozenset, int, float)) or s.__class__.__module__ in ("re",):
            return True
    return False


class GTuple(GList):
    """tuple(<sequence with conditionally present elements>): immutable"""


class DecimalContextToken(object):
    """identity of a decimal context (see call_host: getcontext / setcontext)"""

    def __init__(self, name):
        self.name = name


class OneShot(object):
    """a one-shot iterator (filter/map/generator object): consumed by its first traversal"""

    def __init__(self, items):
        self.items = list(items)

    def __iter__(self):
        it = self.items
        self.items = []
        return iter(it)


class SymSet(object):
    """a set whose membership is symbolic: [(guard, element)]; its iteration order depends on
    the hash seed, so any traversal is recorded as a hash-order event"""

    def __init__(self, items):
        self.items = [x if isinstance(x, tuple) and len(x) == 2 and z3.is_expr(x[0]) else (z3.BoolVal(True), x) for x in items]


# --------------------------------------------------------------------------------------------
# methods


def call_method(eng, recv, name, args, kwargs, st):
    from .interp import OpaqueObjList

    if isinstance(recv, OpaqueObjList):
        if name == "append" and len(args) == 1:
            if st.guards:
                raise NeedFork("append to an opaque list under a merge guard")
            if recv.on_append is not None:
                recv.on_append(st, args[0])
            recv.appended.append(args[0])
            return None
        raise Unsupported("opaque list .%s" % name)
    if isinstance(recv, SMap):
        return smap_method(eng, recv, name, args, kwargs, st)
    if isinstance(recv, SStr):
        return sstr_method(eng, recv, name, args, kwargs, st)
    if isinstance(recv, str):
        return str_method(eng, recv, name, args, kwargs, st)
    if isinstance(recv, DI):
        return eng.lift_raise(lambda r, *a: di_method(r, name, a, kwargs), [recv] + [to_num(a) for a in args], st)
    if isinstance(recv, decimal.Decimal):
        return call_method(eng, to_num(recv), name, args, kwargs, st)
    if isinstance(recv, GList):
        return glist_method(eng, recv, name, args, kwargs, st)
    if isinstance(recv, list):
        return list_method(eng, recv, name, args, kwargs, st)
    if isinstance(recv, dict):
        return dict_method(eng, recv, name, args, kwargs, st)
    if isinstance(recv, FV):
        if kwargs and not all(is_concrete(v) for v in kwargs.values()):
            raise Unsupported("method with symbolic kwargs on finite choice")
        if any(isinstance(a, (SStr, SBool, SInt, SMap, GList)) for a in args):
            raise Unsupported("method %s on finite choice with abstract arguments" % name)

        def f(r, *a):
            if isinstance(r, DI):
                return di_method(r, name, a, kwargs)
            if isinstance(r, (list, dict, set)):
                raise Unsupported("mutable leaf method")
            return getattr(r, name)(*a, **kwargs)

        return eng.lift_raise(f, [recv] + [to_num(a) for a in args], st)
    if isinstance(recv, (set,)):
        if name in ("add", "update", "discard", "remove", "pop", "clear", "difference_update", "intersection_update"):
            eng.check_global_write(recv, st, "set.%s" % name)
            if not all(is_concrete(a) for a in args):
                if name == "add" and len(args) == 1 and isinstance(args[0], SObj):
                    raise Unsupported("set of objects")
                raise Unsupported("set.%s with symbolic element" % name)
            old = set(recv)
            st.log(lambda: (recv.clear(), recv.update(old)))
        if all(is_concrete(a) for a in args):
            try:
                return getattr(recv, name)(*args, **kwargs)
            except Exception as e:  # noqa
                raise PyRaise(type(e), e.args)
        if name in ("difference", "intersection") and len(args) == 1 and isinstance(args[0], SMap) and all(isinstance(x, str) for x in recv):
            m = args[0]
            items = []
            for x in sorted(recv):
                has = m.has(x)
                g = z3.Not(has) if name == "difference" else has
                items.append((z3.simplify(g), x))
            return SymSet(items)
        raise Unsupported("set.%s" % name)
    if isinstance(recv, (tuple, int, float, frozenset, Fraction)):
        if all(is_concrete(a) for a in args):
            try:
                return getattr(recv, name)(*args, **kwargs)
            except Exception as e:  # noqa
                raise PyRaise(type(e), e.args)
        if isinstance(recv, tuple) and name in ("index", "count"):
            raise Unsupported("tuple.%s with symbolic argument" % name)
    if isinstance(recv, (SBool, SInt)):
        raise Unsupported("method %s on abstract scalar" % name)
    raise Unsupported("method %s on %s" % (name, type(recv).__name__))


def di_method(r, name, args, kwargs):
    if name == "quantize":
        exp = args[0]
        rounding = args[1] if len(args) > 1 else kwargs.get("rounding")
        if "context" in kwargs or len(args) > 2:
            raise NumericUndecided("quantize with an explicit context")
        rn = ROUNDINGS.get(rounding) if rounding is not None else None
        if rounding is not None and rn is None:
            raise NumericUndecided("unknown rounding %r" % (rounding,))
        return di_quantize(r, _as_di(exp), rn)
    if name == "__float__":
        return di_to_float(r)
    if name in ("is_zero",):
        if r.lo == r.hi:
            return r.lo == 0
        if r.lo > 0 or r.hi < 0:
            return False
        raise NumericUndecided("is_zero of inexact Decimal")
    if name == "is_finite":
        return True
    if name == "is_nan":
        return False
    if name in ("copy_abs", "__abs__"):
        from .sym import di_neg

        return r if r.lo >= 0 else di_neg(r) if r.hi <= 0 else DI(0, max(-r.lo, r.hi))
    raise NumericUndecided("Decimal.%s is not modelled" % name)


def smap_method(eng, m, name, args, kwargs, st):
    if name == "get":
        key = args[0]
        default = args[1] if len(args) > 1 else kwargs.get("default", None)
        if isinstance(key, FV):
            pairs = []
            for g, k in key.leaves:
                v = smap_method(eng, m, "get", [k, default], {}, st)
                pairs.append((g, v))
            return eng.join_choice(pairs, st)
        if not isinstance(key, (str, SStr)):
            return default
        has = m.has(key)
        if z3.is_true(has):
            return mk_str(m.get(key))
        if z3.is_false(has):
            return default
        if isinstance(default, (str, SStr)) or (isinstance(default, FV) and all(isinstance(x, str) for x in default.values)):
            return mk_str(z3.If(has, m.get(key), str_z(default)))
        # default of another kind (usually None): merge as a finite choice over presence
        if default is None or is_concrete(default):
            # value is abstract when present: fork unless we are merging
            if st.guards:
                raise NeedFork("map.get with non-string default under merge guard")
            if st.decide(has, "map.get present?"):
                return mk_str(m.get(key))
            return default
        raise Unsupported("map.get default")
    if name in ("__contains__", "has_key"):
        return mk_bool(m.has(args[0]))
    if name == "copy":
        return m.copy()
    if name in ("keys", "items", "values", "__iter__"):
        view = eng.hooks.get("map_view")
        if view is not None:
            return view(eng, st, m, name)
        raise Unsupported("iteration over a symbolic map (insertion order is input dependent)")
    if name in ("pop", "popitem", "clear", "update", "setdefault", "__delitem__"):
        st.events.append(("map-write", m, args[0] if args else None))
        if name == "setdefault" and len(args) == 2:
            key, dv = args
            has = m.has(key)
            old_dom, old_val = m.dom, m.val
            kz = str_z(key)
            g = _and(st.guards) if st.guards else z3.BoolVal(True)
            res = mk_str(z3.If(has, m.get(key), str_z(dv)))
            m.val = z3.Store(m.val, kz, z3.If(z3.And(g, z3.Not(has)), str_z(dv), z3.Select(m.val, kz)))
            m.dom = z3.Store(m.dom, kz, z3.Or(g, has))

            def undo():
                m.dom, m.val = old_dom, old_val

            st.log(undo)
            return res
        if name in ("pop", "__delitem__") and len(args) >= 1 and isinstance(args[0], (str, SStr)):
            key = args[0]
            has = m.has(key)
            if len(args) == 1:
                if not st.decide(has, "KeyError?"):
                    raise PyRaise(KeyError, (key,))
                res = mk_str(m.get(key))
            else:
                dv = args[1]
                if isinstance(dv, (str, SStr)):
                    res = mk_str(z3.If(has, m.get(key), str_z(dv)))
                else:
                    if st.decide(has, "pop present?"):
                        res = mk_str(m.get(key))
                    else:
                        res = dv
            if st.guards:
                raise NeedFork("map.pop under merge guard")
            old_dom, old_val = m.dom, m.val
            m.dom = z3.Store(m.dom, str_z(key), z3.BoolVal(False))
            return res
        if name == "update" and len(args) == 1 and isinstance(args[0], dict) and is_concrete(list(args[0].keys())):
            for k, v in args[0].items():
                eng.set_item(m, k, v, st)
            return None
        raise Unsupported("map.%s" % name)
    raise Unsupported("map.%s" % name)


def scat_method(eng, s, name, args, kwargs, st):
    """methods on structured strings decided by their structure; NotImplemented otherwise"""
    from .interp import GList

    if name == "endswith" and len(args) == 1 and isinstance(args[0], str) and len(args[0]) == 1:
        r = S.scat_endswith(s, args[0])
        if r is not None:
            return r
    if name == "startswith" and len(args) == 1 and isinstance(args[0], str):
        r = S.scat_startswith(s, args[0])
        if r is not None:
            return r
    if name == "split" and args and isinstance(args[0], str) and len(args[0]) == 1:
        maxsplit = args[1] if len(args) > 1 else kwargs.get("maxsplit")
        if maxsplit is None:
            r = S.scat_split(s, args[0])
            if r is not None:
                return eng.born(GList(r), st)
        elif maxsplit == 1:
            r = S.scat_split1(s, args[0])
            if r is not None:
                return [r[0], r[1]]
    if name == "partition" and len(args) == 1 and isinstance(args[0], str) and len(args[0]) == 1 and not kwargs:
        # s.partition(c) == (h, c, t) with s.split(c, 1) == [h, t] when c occurs in s
        r = S.scat_split1(s, args[0])
        if r is not None:
            return (r[0], args[0], r[1])
    return NotImplemented


def sstr_method(eng, s, name, args, kwargs, st):
    if isinstance(s, S.SCat):
        r = scat_method(eng, s, name, args, kwargs, st)
        if r is not NotImplemented:
            return r
    if name == "split":
        if not args or not isinstance(args[0], str) or len(args[0]) != 1:
            raise Unsupported("split of abstract string without a one-character literal separator")
        maxsplit = args[1] if len(args) > 1 else kwargs.get("maxsplit")
        if maxsplit is not None and maxsplit != 1:
            raise Unsupported("split with maxsplit != 1")
        return S.split(s, args[0], maxsplit, st)
    if name == "partition" and len(args) == 1 and isinstance(args[0], str) and len(args[0]) == 1 and not kwargs:
        # assumed contract (A1): s.partition(c) is (s, "", "") when c does not occur in s, and
        # (h, c, t) with [h, t] == s.split(c, 1) when it does
        sr = S.split(s, args[0], 1, st)
        if st.decide(z3.simplify(sr.nparts() >= 2), "separator occurs?"):
            return (sr.part(0), args[0], sr.part(1))
        return (s, "", "")
    if name == "startswith":
        p = args[0]
        if isinstance(p, tuple):
            return mk_bool(_or([eng.cond_z(S.startswith(s, x), st) if not isinstance(S.startswith(s, x), bool) else z3.BoolVal(S.startswith(s, x)) for x in p]))
        if isinstance(p, str) and len(p) >= 2 and p[:-1].count(p[-1]) == 0:
            for f in S.startswith_facts(s, p[:-1], p[-1]):
                st.assume(f)
        return S.startswith(s, p)
    if name == "endswith":
        return S.endswith(s, args[0])
    if name == "strip" and not args:
        return S.strip(s)
    if name == "upper":
        return S.upper(s)
    if name == "lower":
        return S.lower(s)
    if name in ("capitalize", "title", "swapcase", "casefold", "lstrip", "rstrip") and not args and not kwargs:
        return S.pure_method(s, name)
    if name == "format":
        # str.format on an unknown template: a template with unbalanced or out-of-range braces
        # raises ValueError / IndexError / KeyError, otherwise the result is some string
        for exc in (ValueError, IndexError, KeyError):
            if st.decide(z3.Bool(fresh_name("template_raises_%s" % exc.__name__)), "format() of an unknown template"):
                raise PyRaise(exc, ("format of an unknown template",))
        from .sym import fresh_str

        return fresh_str("formatted")
    if name == "__eq__":
        return eng.equals(s, args[0], st)
    if name == "replace" and len(args) == 2 and all(isinstance(a, str) for a in args):
        return mk_str(S.f_replace(s.z, lit(args[0]), lit(args[1])))
    raise Unsupported("str.%s on an abstract string" % name)


def str_method(eng, s, name, args, kwargs, st):
    if name == "join":
        items = args[0]
        if isinstance(items, SymSet):
            st.events.append(("hash-order", "a set is joined into a string: element order depends on the hash seed"))
            items = GList(items.items)
        if isinstance(items, GList):
            if all(z3.is_true(g) for g, _ in items.items):
                items = [x for _, x in items.items]
            else:
                return S.join_glist(s, items.items)
        items = eng.iterate(items, st)
        out = []
        for x in items:
            if isinstance(x, FV):
                if not all(isinstance(v, str) for v in x.values):
                    bad = fv_guard_of(x, lambda v: not isinstance(v, str))
                    if st.decide(bad, "join of non-str"):
                        raise PyRaise(TypeError, ("sequence item: expected str instance",))
            elif not isinstance(x, (str, SStr)):
                raise PyRaise(TypeError, ("sequence item: expected str instance",))
            out.append(x)
        return S.join(s, out)
    if name == "format":
        if all(is_concrete(a) for a in args) and all(is_concrete(v) for v in kwargs.values()):
            try:
                return s.format(*args, **kwargs)
            except Exception as e:  # noqa
                raise PyRaise(type(e), e.args)
        if all(is_concrete(a) or isinstance(a, FV) for a in args) and all(is_concrete(v) for v in kwargs.values()):
            n = 1
            for a in args:
                if isinstance(a, FV):
                    n *= len(a.values)
            if n <= 4096:
                return eng.lift_raise(lambda *a: s.format(*[concrete_str(x) if isinstance(x, DI) else x for x in a], **kwargs), list(args), st)
        try:
            return S.fmt(s, args, kwargs, lambda v: _fmt_str(eng, v, st))
        except (IndexError, KeyError) as e:
            raise PyRaise(type(e), e.args)
        except ValueError as e:
            raise PyRaise(ValueError, e.args)
        except NotImplementedError as e:
            raise Unsupported("str.format: %s" % e)
    if all(not is_sym(a) and not isinstance(a, (DI, GList, SMap)) for a in args):
        try:
            return getattr(s, name)(*args, **kwargs)
        except Exception as e:  # noqa
            raise PyRaise(type(e), e.args)
    if name in ("startswith", "endswith", "__eq__", "__contains__", "count", "find", "index", "replace", "split"):
        if all(isinstance(a, (str, FV, int)) for a in args):
            return eng.lift_raise(lambda *a: getattr(s, name)(*a), list(args), st)
    raise Unsupported("str.%s with abstract arguments" % name)


def _fmt_str(eng, v, st):
    return builtin_str(eng, v, st)


def glist_method(eng, l, name, args, kwargs, st):
    if name in ("append", "extend", "insert", "pop", "remove", "clear", "sort", "reverse"):
        eng.check_global_write(l, st, "list.%s" % name)
    if name == "extend":
        g = _and(st.guards) if st.guards else z3.BoolVal(True)
        n = len(l.items)
        src = args[0]
        if isinstance(src, GList):
            l.items.extend((_and([g, h]), x) for h, x in src.items)
        else:
            l.items.extend((g, x) for x in eng.iterate(src, st))
        st.log(lambda: l.items.__delitem__(slice(n, None)))
        return None
    if name in ("index", "count", "pop", "insert", "remove", "sort", "reverse", "clear") and all(z3.is_true(g) for g, _ in l.items) and not st.guards:
        plain = [x for _, x in l.items]
        r = list_method(eng, plain, name, args, kwargs, st)
        l.items = [(z3.BoolVal(True), x) for x in plain]
        return r
    if name == "append":
        gs = st.guards[eng.base_of(l, st):]
        g = _and(gs) if gs else z3.BoolVal(True)
        l.items.append((g, args[0]))
        st.log(lambda: l.items.pop())
        return None
    if name == "copy":
        return GList(l.items)
    raise Unsupported("guarded list .%s" % name)


MUTATING_LIST = ("append", "extend", "insert", "pop", "remove", "clear", "sort", "reverse", "__setitem__", "__delitem__", "__iadd__")


def list_method(eng, l, name, args, kwargs, st):
    if name in MUTATING_LIST:
        eng.check_global_write(l, st, "list.%s" % name)
    if name == "append":
        if st.guards[eng.base_of(l, st):]:
            raise NeedFork("append to a plain list under a merge guard")
        l.append(args[0])
        st.log(lambda: l.pop())
        return None
    if name == "extend":
        if st.guards:
            raise NeedFork("extend under merge guard")
        items = eng.iterate(args[0], st)
        n = len(l)
        l.extend(items)
        st.log(lambda: l.__delitem__(slice(n, None)))
        return None
    if name == "copy":
        return list(l)
    if name in ("pop", "insert", "remove", "clear", "sort", "reverse", "index", "count"):
        if is_concrete(l) and all(is_concrete(a) for a in args):
            if st.guards and name in MUTATING_LIST:
                raise NeedFork("list mutation under merge guard")
            old = list(l)
            if name in MUTATING_LIST:
                st.log(lambda: l.__setitem__(slice(None), old))
            try:
                return getattr(l, name)(*args, **kwargs)
            except Exception as e:  # noqa
                raise PyRaise(type(e), e.args)
        if name == "pop" and not args:
            if st.guards:
                raise NeedFork("pop under merge guard")
            if not l:
                raise PyRaise(IndexError, ("pop from empty list",))
            return l.pop()
        raise Unsupported("list.%s with symbolic content" % name)
    raise Unsupported("list.%s" % name)


MUTATING_DICT = ("update", "pop", "popitem", "clear", "setdefault", "__setitem__", "__delitem__")


def dict_method(eng, d, name, args, kwargs, st):
    if name in MUTATING_DICT:
        eng.check_global_write(d, st, "dict.%s" % name)
    if name == "get":
        default = args[1] if len(args) > 1 else kwargs.get("default")
        return eng.dict_lookup(d, args[0], st, default, False)
    if name == "items":
        return [(k, v) for k, v in d.items()]
    if name == "keys":
        return list(d.keys())
    if name == "values":
        return list(d.values())
    if name == "copy":
        return type(d)(d)
    if name == "__contains__":
        return eng.contains(d, args[0], st)
    if name == "setdefault":
        k = args[0]
        if not is_concrete(k):
            raise Unsupported("dict.setdefault with symbolic key")
        if k in d:
            return d[k]
        eng.set_item(d, k, args[1] if len(args) > 1 else None, st)
        return d[k]
    if name == "update":
        if len(args) == 1 and isinstance(args[0], dict):
            for k, v in args[0].items():
                eng.set_item(d, k, v, st)
            for k, v in kwargs.items():
                eng.set_item(d, k, v, st)
            return None
        if len(args) == 1 and isinstance(args[0], (list, tuple)) and all(
                isinstance(x, (list, tuple)) and len(x) == 2 for x in args[0]):
            # an iterable of key/value pairs
            for k, v in args[0]:
                eng.set_item(d, k, v, st)
            for k, v in kwargs.items():
                eng.set_item(d, k, v, st)
            return None
        if not args:
            for k, v in kwargs.items():
                eng.set_item(d, k, v, st)
            return None
        raise Unsupported("dict.update argument")
    if name == "pop":
        k = args[0]
        if not is_concrete(k):
            raise Unsupported("dict.pop with symbolic key")
        if st.guards:
            raise NeedFork("dict.pop under merge guard")
        if k in d:
            return d.pop(k)
        if len(args) > 1:
            return args[1]
        raise PyRaise(KeyError, (k,))
    if name == "__delitem__":
        k = args[0]
        if not is_concrete(k):
            raise Unsupported("del dict[symbolic]")
        if st.guards:
            raise NeedFork("del under merge guard")
        if k not in d:
            raise PyRaise(KeyError, (k,))
        del d[k]
        return None
    if name == "clear":
        if st.guards:
            raise NeedFork("clear under merge guard")
        d.clear()
        return None
    raise Unsupported("dict.%s" % name)
