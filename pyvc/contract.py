"""
pyvc.contract -- side-car contracts and the per-function verifier.

A Contract names a real function of /repo (module + qualified name).  It provides

  cases            finite list of case-splits of the parameters (each case is verified separately)
  setup(ctx)       builds the symbolic pre-state (assumes `requires`) and returns the call
                   arguments
  check_return / check_raise
                   postconditions per path, emitted as named obligations (ctx.prove / ctx.fail)
  modifies         frame: the fields of `self` the function may write (None = unrestricted)
  effect(...)      what a *caller* sees: precondition obligation, havoc of the frame, assumed
                   postcondition.  Callers never look into the callee's body.

verify(contract) symbolically executes the function's AST from the current tree, once per
feasible path, and returns every obligation with its verdict.
"""
from __future__ import annotations

import time
import traceback

import z3

from . import sym
from .interp import (
    Engine,
    NeedFork,
    Obligation,
    PathCut,
    PathState,
    PyClass,
    PyFunc,
    PyRaise,
    ReturnSig,
    Unsupported,
)
from .sym import NumericUndecided, TooManyLeaves, UnsupportedOp, SObj, SMap

REGISTRY = {}
EXTRA_STATE_BUDGET = 120


class Ctx(object):
    def __init__(self, engine, st, contract, case):
        self.engine = engine
        self.st = st
        self.contract = contract
        self.case = case
        self.data = {}

    def _hist(self, detail):
        h = self.data.get("history")
        if h:
            return (detail or "") + " [state of the object: after " + "; ".join(h) + "]"
        return detail

    def prove(self, name, goal, detail=None):
        return self.st.prove("%s/%s" % (self.contract.oid, name), goal, self._hist(detail))

    def fail(self, name, detail, status="refuted"):
        return self.st.fail("%s/%s" % (self.contract.oid, name), self._hist(detail), status=status)

    def assume(self, z):
        self.st.assume(z)


class Contract(object):
    module = None  # e.g. "cvss3"
    qualname = None  # e.g. "CVSS3.compute_isc"
    modifies = None  # set of self-field names or None
    may_print = False
    inline_callees = ()  # qualnames executed inline instead of via their contract
    cases = ({},)
    max_paths = 5000

    @property
    def oid(self):
        return "%s.%s" % (self.module, self.qualname)

    def case_label(self, case):
        if not case:
            return ""
        return "[" + ",".join("%s=%s" % (k, case[k]) for k in sorted(case)) + "]"

    def hooks(self, ctx):
        return {}

    def setup(self, ctx):
        raise NotImplementedError

    def check_return(self, ctx, value):
        pass

    def check_raise(self, ctx, exc):
        ctx.fail(
            "raises:%s" % exc.exc_cls.__name__,
            "exception %s%r escapes (%s)" % (exc.exc_cls.__name__, _short(exc.exc_args), exc.note),
        )

    def effect(self, eng, st, args, kwargs):
        """callers' view; return NotImplemented to have the body inlined"""
        return NotImplemented


def _short(x):
    s = repr(x)
    return s if len(s) < 120 else s[:117] + "..."


def register(c):
    inst = c() if isinstance(c, type) else c
    REGISTRY[(inst.module, inst.qualname)] = inst
    return c


def lookup_function(engine, module, qualname):
    env = engine.module(module)
    parts = qualname.split(".")
    obj = env.globals.get(parts[0])
    for p in parts[1:]:
        if isinstance(obj, PyClass):
            obj = obj.lookup(p)
        else:
            obj = None
    return obj


class UnitResult(object):
    def __init__(self, unit):
        self.unit = unit
        self.obligations = []
        self.paths = 0
        self.undecided = []  # (reason, path)
        self.seconds = 0.0
        self.solver_checks = 0
        self.solver_seconds = 0.0
        self.fd_points = 0
        self.second = {}
        self.crash = None

    def to_json(self):
        return {
            "unit": self.unit,
            "paths": self.paths,
            "obligations": [
                {
                    "name": o.name,
                    "status": o.status,
                    "detail": o.detail,
                    "model": o.model,
                    "seconds": round(o.seconds, 4),
                    "kind": o.kind,
                    "backend": getattr(o, "backend", None),
                    "grid": getattr(o, "grid", None),
                }
                for o in self.obligations
            ],
            "undecided": self.undecided,
            "seconds": round(self.seconds, 3),
            "solver_checks": self.solver_checks,
            "solver_seconds": round(self.solver_seconds, 3),
            "fd_points": self.fd_points,
            "second_opinion": dict(self.second),
            "crash": self.crash,
        }


def make_on_call(contract, engine):
    """callee dispatch: callees with a registered contract are replaced by their effect"""

    def on_call(eng, st, f, args, kwargs):
        if f.module is None:
            return False, None
        key = (f.module.name, f.qualname)
        if key == (contract.module, contract.qualname) and len(eng.call_stack) == 0:
            return False, None
        if f.qualname in contract.inline_callees:
            return False, None
        c = REGISTRY.get(key)
        if c is None:
            return False, None
        r = c.effect(eng, st, args, kwargs)
        if r is NotImplemented:
            return False, None
        return True, r

    return on_call


def verify(contract, case=None, max_seconds=None):
    """run all paths of one (contract, case) unit"""
    case = case or {}
    unit = contract.oid + contract.case_label(case)
    res = UnitResult(unit)
    t0 = time.time()
    engine = Engine(contracts=REGISTRY)
    try:
        func = lookup_function(engine, contract.module, contract.qualname)
    except Exception as e:  # noqa
        res.crash = "loading %s failed: %r" % (contract.module, e)
        res.undecided.append((res.crash, []))
        res.seconds = time.time() - t0
        return res
    if not isinstance(func, PyFunc):
        ob = Obligation("%s/exists" % contract.oid, "refuted", "function %s no longer exists in cvss/%s.py" % (contract.qualname, contract.module))
        ob.kind = "structure"
        res.obligations.append(ob)
        res.seconds = time.time() - t0
        return res
    worklist = [[]]
    refuted_count = {}
    while worklist:
        if max_seconds and time.time() - t0 > max_seconds:
            res.undecided.append(("time budget of unit exhausted with %d paths pending" % len(worklist), []))
            break
        if res.paths >= contract.max_paths:
            res.undecided.append(("path budget exhausted", []))
            break
        trace = worklist.pop()
        st = PathState(engine, trace)
        ctx = Ctx(engine, st, contract, case)
        engine.model_terms = []
        engine.hooks = {"on_call": make_on_call(contract, engine)}
        engine.call_stack = []
        res.paths += 1
        try:
            try:
                args, kwargs = contract.setup(ctx)
                if ctx.data.get("extra_fields") and max_seconds:
                    # the pre-state had to be derived from the constructor (pyvc.extra): such units
                    # get a smaller time budget, past which they are undecided
                    max_seconds = min(max_seconds, EXTRA_STATE_BUDGET)
                engine.hooks.update(contract.hooks(ctx))
                if func.decorators:
                    raise Unsupported("decorated function %s (%s)" % (func.qualname, ", ".join(func.decorators)))
                try:
                    value = engine.run_body(func, args, kwargs, st)
                    outcome = ("return", value)
                except PyRaise as e:
                    outcome = ("raise", e)
                if outcome[0] == "return":
                    contract.check_return(ctx, outcome[1])
                else:
                    contract.check_raise(ctx, outcome[1])
                check_frame(ctx, contract)
            except PathCut:
                pass
            except NeedFork as e:
                res.undecided.append(("internal: NeedFork escaped: %s" % e, list(st.trace)))
            except (Unsupported, UnsupportedOp, NumericUndecided, TooManyLeaves, NotImplementedError) as e:
                res.undecided.append(("%s: %s" % (type(e).__name__, e), list(st.trace)))
                # what already happened on this (feasible) path prefix still counts: global
                # writes, output, hash-order traversals recorded before the unsupported construct
                try:
                    check_frame(ctx, contract)
                except Exception:  # noqa
                    pass
            except RecursionError:
                res.undecided.append(("recursion limit", list(st.trace)))
        except Exception as e:  # noqa: checker crash on this path
            res.crash = "".join(traceback.format_exception(type(e), e, e.__traceback__)[-6:])
            res.undecided.append(("checker error: %r" % (e,), list(st.trace)))
        # the same obligation is reported once per path
        seen_names = set()
        for ob in st.obligations:
            if ob.status != "discharged":
                if (ob.name, ob.status) in seen_names:
                    continue
                seen_names.add((ob.name, ob.status))
            res.obligations.append(ob)
        worklist.extend(st.alternatives)
        for nm, status in seen_names:
            if status == "refuted":
                refuted_count[nm] = refuted_count.get(nm, 0) + 1
        if worklist and refuted_count and (max(refuted_count.values()) >= 12 or sum(refuted_count.values()) >= 24):
            # the verdict of this unit is settled (a refuted obligation on a dozen paths): the
            # remaining paths are not explored
            res.undecided.append(("exploration of the unit stopped after %d refutations, %d paths pending" % (
                sum(refuted_count.values()), len(worklist)), []))
            break
    res.seconds = time.time() - t0
    res.solver_checks = engine.stats.checks
    res.solver_seconds = engine.stats.seconds
    res.fd_points = int(engine.stats.fd.get("points", 0))
    res.second = dict(engine.stats.second)
    return res


def check_frame(ctx, contract):
    """frame conditions: writes outside `modifies`, module-global writes, stdout, hash order"""
    st = ctx.st
    self_obj = ctx.data.get("self")
    dc = st.ghost.get("decimal-context", "ambient")
    if dc != "ambient":
        ctx.fail("frame/decimal-context", "the function is left with the thread's decimal context replaced by %s" % dc)
    for ev in st.events:
        kind = ev[0]
        if kind == "global-write":
            ctx.fail("frame/global", ev[1])
        elif kind == "write":
            obj, attr = ev[1], ev[2]
            if contract.modifies is not None and obj is self_obj and attr not in contract.modifies:
                known = getattr(obj, "assumed_fields", None)
                from .extra import is_further_field

                if attr in getattr(obj, "extra_fields", ()) or is_further_field(obj, attr):
                    # a field outside the representation invariant whose contents are derived
                    # from the code (pyvc.extra): writing it is no frame violation by itself --
                    # the accessor contracts are verified from every state such writes produce
                    pass
                elif known is not None and attr not in known:
                    # state the representation invariant does not mention (e.g. a memo field):
                    # whether writing it is harmless needs an invariant for it -- undecided
                    ctx.fail("frame/self.%s" % attr, "field %s, which the assumed representation invariant does not cover, is written" % attr,
                             status="unknown")
                else:
                    ctx.fail("frame/self.%s" % attr, "field %s written but not in modifies %s" % (attr, sorted(contract.modifies)))
            elif obj is not self_obj and attr in getattr(obj, "extra_fields", ()):
                pass
            elif obj is not self_obj and not getattr(obj, "fresh", False) and obj in ctx.data.get("foreign", ()):
                ctx.fail("frame/other.%s" % attr, "field %s of another object written" % attr)
        elif kind == "map-write":
            m = ev[1]
            frozen = ctx.data.get("frozen_maps", ())
            for name, fm in frozen:
                if m is fm:
                    ctx.fail("frame/%s" % name, "%s mutated (key %r)" % (name, ev[2]))
        elif kind == "print":
            if not contract.may_print:
                ctx.fail("frame/stdout", "function writes to stdout")
        elif kind == "hash-order":
            ctx.fail("frame/hash-order", ev[1])
        elif kind == "one-shot-iterator":
            ctx.data.setdefault("one_shot", []).append(ev[1])


class LemmaCtx(Ctx):
    def __init__(self, engine, st, name, case):
        self.engine = engine
        self.st = st
        self.case = case
        self.data = {}
        self.name = name

    def prove(self, name, goal, detail=None):
        return self.st.prove("lemma:%s/%s" % (self.name, name), goal, detail, kind="lemma")

    def fail(self, name, detail, status="refuted"):
        return self.st.fail("lemma:%s/%s" % (self.name, name), detail, status=status, kind="lemma")


def run_lemma(name, fn, case, max_paths=400, max_seconds=900):
    """a specification-level lemma: fn(ctx) builds its hypotheses and emits obligations; like a
    function body it is explored along every feasible path"""
    label = "lemma:%s%s" % (name, ("[" + ",".join("%s=%s" % (k, case[k]) for k in sorted(case)) + "]") if case else "")
    res = UnitResult(label)
    t0 = time.time()
    engine = Engine(contracts=REGISTRY)
    worklist = [[]]
    while worklist:
        if res.paths >= max_paths:
            res.undecided.append(("path budget exhausted", []))
            break
        if time.time() - t0 > max_seconds:
            res.undecided.append(("time budget exhausted after %d paths" % res.paths, []))
            break
        trace = worklist.pop()
        st = PathState(engine, trace)
        ctx = LemmaCtx(engine, st, name, case)
        engine.model_terms = []
        engine.hooks = {}
        engine.call_stack = []
        res.paths += 1
        try:
            fn(ctx)
        except PathCut:
            pass
        except (Unsupported, UnsupportedOp, NumericUndecided, TooManyLeaves, NotImplementedError) as e:
            res.undecided.append(("%s: %s" % (type(e).__name__, e), list(st.trace)))
        except Exception as e:  # noqa
            res.crash = "".join(traceback.format_exception(type(e), e, e.__traceback__)[-6:])
            res.undecided.append(("checker error: %r" % (e,), list(st.trace)))
        res.obligations.extend(st.obligations)
        worklist.extend(st.alternatives)
    res.seconds = time.time() - t0
    res.solver_checks = engine.stats.checks
    res.solver_seconds = engine.stats.seconds
    res.fd_points = int(engine.stats.fd.get("points", 0))
    res.second = dict(engine.stats.second)
    return res
