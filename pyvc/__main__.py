import argparse
import os
import sys

VERIF = os.path.dirname(os.path.dirname(os.path.abspath(__file__)))
sys.path.insert(0, VERIF)


def main():
    ap = argparse.ArgumentParser(prog="pyvc")
    sub = ap.add_subparsers(dest="cmd")
    c = sub.add_parser("check")
    c.add_argument("property")
    c.add_argument("--tier", default=os.environ.get("VERIF_TIER", "quick"))
    c.add_argument("--procs", type=int, default=None)
    c.add_argument("-v", "--verbose", action="store_true")
    r = sub.add_parser("replay")
    r.add_argument("path")
    sub.add_parser("selftest")
    a = ap.parse_args()
    if a.cmd == "check":
        if a.tier == "thorough":
            # every unsat verdict of z3 is also put to cvc5 (read at import time by pyvc.interp)
            os.environ.setdefault("PYVC_SECOND_OPINION", "1")
        import properties_map
        from pyvc import driver

        prop = properties_map.PROPERTIES[a.property]
        seed = int(os.environ.get("VERIF_SEED", "0") or 0)
        try:
            rc = driver.check(prop, a.tier, seed, a.procs, a.verbose)
        except Exception:  # noqa
            import traceback

            traceback.print_exc()
            rc = 3
        sys.exit(rc)
    if a.cmd == "replay":
        from pyvc import driver

        sys.exit(driver.replay(a.path))
    if a.cmd == "selftest":
        from pyvc import selftest

        sys.exit(selftest.main())
    ap.print_help()
    sys.exit(2)


main()
