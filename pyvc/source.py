"""
pyvc.source -- intake of the real source under verification.

Every run re-reads /repo/cvss/*.py (REPO can be redirected with CVSS_REPO for scratch copies),
parses it with `ast` and builds module environments for the executor:

* constants2/3/4.py and exceptions.py are pure data / class definitions: their module-level
  code is evaluated by host CPython in a fresh namespace (`exec` of the current file's text), so
  an edited table or exception hierarchy is what gets verified;
* cvss2/3/4.py, parser.py, interactive.py, cvss_calculator.py are *interpreted*: their
  module-level statements are executed by the pyvc executor itself (imports resolved by this
  loader, `def`/`class` recorded as AST closures, other statements run concretely), and their
  functions are only ever run symbolically from the AST.

Dropped by the intake: docstrings, comments, `from __future__` imports (Python 3 semantics are
assumed), nothing else.
"""
from __future__ import annotations

import ast
import hashlib
import os

REPO = os.environ.get("CVSS_REPO", "/repo")

DATA_MODULES = ("constants2", "constants3", "constants4", "exceptions")
CODE_MODULES = ("cvss2", "cvss3", "cvss4", "parser", "interactive", "cvss_calculator")


class SourceError(Exception):
    pass


class Sources(object):
    def __init__(self, repo=None):
        self.repo = repo or REPO
        self.text = {}
        self.tree = {}
        self.sha = {}
        self._data_ns = {}

    def path(self, mod):
        return os.path.join(self.repo, "cvss", mod + ".py")

    def read(self, mod):
        if mod not in self.text:
            p = self.path(mod)
            try:
                with open(p, "rb") as f:
                    raw = f.read()
            except OSError as e:
                raise SourceError("cannot read %s: %s" % (p, e))
            self.sha[mod] = hashlib.sha256(raw).hexdigest()
            self.text[mod] = raw.decode("utf-8")
            try:
                self.tree[mod] = ast.parse(self.text[mod], filename=p)
            except SyntaxError as e:
                raise SourceError("syntax error in %s: %s" % (p, e))
        return self.text[mod]

    def ast_of(self, mod):
        self.read(mod)
        return self.tree[mod]

    def data_namespace(self, mod):
        """evaluate a pure-data module of the current tree in a fresh namespace"""
        if mod not in self._data_ns:
            text = self.read(mod)
            ns = {"__name__": "cvss." + mod, "__package__": "cvss"}
            try:
                exec(compile(text, self.path(mod), "exec"), ns)
            except Exception as e:  # noqa
                raise SourceError("evaluating %s failed: %r" % (self.path(mod), e))
            self._data_ns[mod] = ns
        return self._data_ns[mod]

    def hashes(self):
        return dict(self.sha)


_SOURCES = None


def sources():
    global _SOURCES
    if _SOURCES is None:
        _SOURCES = Sources()
    return _SOURCES


def reset_sources(repo=None):
    global _SOURCES
    _SOURCES = Sources(repo)
    return _SOURCES
