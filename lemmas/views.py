"""
Effective-assignment views for specification-level lemmas: every scoring metric is a plain
finite-domain variable ranging over its *effective* values (no Not Defined, no separate
modified metrics); metrics named in `fixed` are constants.  The specification nodes are those of
the contract views (contracts.cvss2/3/4), so a lemma talks about exactly the functions the code
contracts equate the implementation with.
"""
from __future__ import annotations

import z3

from pyvc import fd
from pyvc.sym import lit
from spec import v2, v3, v4

from contracts import cvss2 as C2, cvss3 as C3, cvss4 as C4


def _var(ctx, name, values):
    bs = [z3.Bool("%s=%s" % (name, x)) for x in values]
    n = fd.var(name, list(values), guards=bs)
    conv = (lambda x: z3.IntVal(x)) if isinstance(values[0], int) else lit
    t = conv(values[-1])
    for b, x in reversed(list(zip(bs, values))[:-1]):
        t = z3.If(b, conv(x), t)
    ctx.engine.model_terms.append((name, t))
    return n


EFF4 = {m: [x for x in v4.VALUES[m] if x != "X"] for m in v4.SCORING}
EFF4["SI"] = ["S", "H", "L", "N"]
EFF4["SA"] = ["S", "H", "L", "N"]


class EffV4(C4.V4):
    def __init__(self, ctx, fixed=None, tag="e"):
        self.ctx = ctx
        fixed = fixed or {}
        self.e = {m: (fixed[m] if m in fixed else _var(ctx, "%s.%s" % (tag, m), EFF4[m])) for m in v4.SCORING}
        self._spec = {}
        self.memo_tag = tuple(sorted(fixed))

    def with_fixed(self, more):
        w = EffV4.__new__(EffV4)
        w.ctx = self.ctx
        w.e = dict(self.e)
        w.e.update(more)
        w._spec = {}
        return w


EFF3 = {
    "AV": v3.VALUES["AV"], "AC": v3.VALUES["AC"], "PR": v3.VALUES["PR"], "UI": v3.VALUES["UI"],
    "S": v3.VALUES["S"], "C": v3.VALUES["C"], "I": v3.VALUES["I"], "A": v3.VALUES["A"],
    "E": ["H", "F", "P", "U"], "RL": ["U", "W", "T", "O"], "RC": ["C", "R", "U"],
    "CR": ["H", "M", "L"], "IR": ["H", "M", "L"], "AR": ["H", "M", "L"],
}
for _m in v3.MODIFIED:
    EFF3[_m] = EFF3[_m[1:]]


class EffV3(C3.V3):
    def __init__(self, ctx, fixed=None, tag="e", minor=None):
        self.ctx = ctx
        fixed = fixed or {}
        self.e = {m: (fixed[m] if m in fixed else _var(ctx, "%s.%s" % (tag, m), EFF3[m])) for m in v3.ORDER}
        self.minor = minor if minor is not None else _var(ctx, tag + ".minor", [0, 1])
        self._spec = {}

    def with_fixed(self, more):
        w = EffV3.__new__(EffV3)
        w.ctx, w.minor = self.ctx, self.minor
        w.e = dict(self.e)
        w.e.update(more)
        w._spec = {}
        return w


EFF2 = {m: [x for x in v2.VALUES[m] if x != "ND"] for m in v2.ORDER}


class EffV2(C2.V2):
    def __init__(self, ctx, fixed=None, tag="e"):
        self.ctx = ctx
        fixed = fixed or {}
        self.e = {m: (fixed[m] if m in fixed else _var(ctx, "%s.%s" % (tag, m), EFF2[m])) for m in v2.ORDER}
        self._spec = {}

    def with_fixed(self, more):
        w = EffV2.__new__(EffV2)
        w.ctx = self.ctx
        w.e = dict(self.e)
        w.e.update(more)
        w._spec = {}
        return w
