"""
Re-parse / round-trip lemmas (C07, C08, C12, C15): the *real* constructor (its real
parse_vector body, the other callees through their contracts) is run on the structured string the
library emits for an arbitrary well-formed object x, and the result is compared with x.

  reparse      y = Class(x.clean_vector())      accepted; y == x; same scores; same cleaned vector
  roundtrip    y = Class.from_rh_vector(x.rh_vector())   accepted; y == x
  reassemble   y = Class(base(x) + "/" + x.temporal_vector() + "/" + x.environmental_vector())
               accepted; same scores                                            (v2, v3)
"""
from __future__ import annotations

import z3

from contracts import cvss2 as C2, cvss3 as C3, cvss4 as C4
from contracts import init as CI  # noqa: F401 (registers constructor / parse effects)
from contracts.common import field_fv, strings_equal
from pyvc import strings as S
from pyvc.contract import REGISTRY, make_on_call, lookup_function
from pyvc.interp import PyRaise
from pyvc.sym import SBool, SObj, eq_z3
from spec import v2, v3, v4


class _Fake(object):
    module, qualname, inline_callees = "lemma", "reparse", ()


VERS = {
    "2": ("cvss2", "CVSS2", C2.V2, C2.canon2, ("base", "temporal", "env"), "v2view"),
    "3": ("cvss3", "CVSS3", C3.V3, C3.canon3, ("base", "temporal", "env"), "v3view"),
    "4": ("cvss4", "CVSS4", C4.V4, C4.canon4, ("score",), "v4view"),
}


def _setup(ctx):
    ver = ctx.case["version"]
    mod, clsname, View, canon, scores, attr = VERS[ver]
    eng = ctx.engine
    eng.hooks = {"on_call": make_on_call(_Fake(), eng), "empty_dict_is_map": True}
    view = View(ctx)
    x = view.obj("done")
    setattr(x, attr, view)
    cls = eng.module(mod).globals[clsname]
    return ver, eng, view, x, cls, canon, scores, attr


def _construct(ctx, eng, cls, arg, how="init"):
    st = ctx.st
    try:
        if how == "init":
            return eng.instantiate(cls, [arg], {}, st)
        f = cls.lookup("from_rh_vector")
        return eng.call_function(f, [cls, arg], {}, st)
    except PyRaise as e:
        ctx.fail("accepted", "%s raised for the library's own output" % e.exc_cls.__name__)
        return None


def _same(ctx, x, y, view, scores, attr, tag, with_scores=True):
    eng, st = ctx.engine, ctx.st
    yv = getattr(y, attr, None)
    if yv is None:
        ctx.fail(tag + "/view", "re-parsed object has no parsed view")
        return
    for sname in (scores if with_scores else ()):
        ctx.prove(tag + "/same-%s-score" % sname, eq_z3(view.spec(sname), yv.spec(sname)),
                  "the re-parsed object has the same %s score" % sname)
    r = eng.equals(x, y, st)
    z = r.z if isinstance(r, SBool) else z3.BoolVal(bool(r))
    ctx.prove(tag + "/equal", z, "the re-parsed object equals the original")
    r2 = eng.equals(y, x, st)
    z2 = r2.z if isinstance(r2, SBool) else z3.BoolVal(bool(r2))
    ctx.prove(tag + "/equal-symmetric", z2, "and the other way round")


def reparse(ctx):
    ver, eng, view, x, cls, canon, scores, attr = _setup(ctx)
    s = canon(view)
    y = _construct(ctx, eng, cls, s)
    if y is None:
        return
    ctx.prove("reparse/accepted", True, "the cleaned vector is accepted by the library's own parser")
    _same(ctx, x, y, view, scores, attr, "reparse")
    yv = getattr(y, attr)
    ctx.prove("reparse/same-cleaned-vector", strings_equal(canon(yv), s), "cleaning the re-parsed object gives the same string")


def roundtrip(ctx):
    ver, eng, view, x, cls, canon, scores, attr = _setup(ctx)
    mod, clsname = VERS[ver][0], VERS[ver][1]
    rh = REGISTRY[(mod, clsname + ".rh_vector")].effect(eng, ctx.st, [x], {})
    y = _construct(ctx, eng, cls, rh, how="rh")
    if y is None:
        return
    ctx.prove("roundtrip/accepted", isinstance(y, SObj), "from_rh_vector accepts rh_vector()")
    if isinstance(y, SObj):
        # equal objects define the same metrics, hence (reparse lemma / determinism of the
        # specification functions) have the same scores: only equality is stated here
        _same(ctx, x, y, view, scores, attr, "roundtrip", with_scores=False)


def reassemble(ctx):
    if ctx.case["version"] == "4":
        return
    ver, eng, view, x, cls, canon, scores, attr = _setup(ctx)
    spec = {"2": v2, "3": v3}[ver]
    sub = {"2": C2.subvector2, "3": C3.subvector3}[ver]
    prefix = "" if ver == "2" else C3.prefix3(view)
    basev = S.concat(prefix, S.join("/", [field_fv(m, view.e[m]) for m in spec.BASE]))
    full = S.concat_all([basev, "/", sub(view, spec.TEMPORAL), "/", sub(view, spec.ENVIRONMENTAL)])
    y = _construct(ctx, eng, cls, full)
    if y is None:
        return
    ctx.prove("reassemble/accepted", True, "base metrics + temporal_vector() + environmental_vector() is accepted")
    yv = getattr(y, attr)
    for sname in scores:
        ctx.prove("reassemble/same-%s-score" % sname, eq_z3(view.spec(sname), yv.spec(sname)),
                  "the re-assembled vector has the same %s score" % sname)
