"""
C05 -- lemmas that close the gap between the contracts (every observable equals a specification
function of the parsed metric map) and the property (outputs do not depend on field order or on
spelling out Not Defined).

  perm      Parsed(v1, M1) /\\ Parsed(v2, M2) /\\ v2's fields are a permutation of v1's  ==>  M1 == M2
            (the parse relation of contracts/parse.py, quantified, z3 with E-matching)
  spelling  for an arbitrary well-formed metric map M, the fully spelled-out map M+ (every optional
            metric present, absent ones as ND/X) and the minimal map M- (no optional metric with
            value ND/X) give the same specification values for every observable the accessor
            contracts are stated with: scores, severities, canonical vector, Red Hat vector,
            sub-vectors, equality (both directions).  Any two spellings of the same assignment
            share M-, so all spellings agree.
"""
from __future__ import annotations

import z3

from contracts import cvss2 as C2, cvss3 as C3, cvss4 as C4
from contracts.common import lift, strings_equal
from contracts.init import map_from_smap
from contracts.parse import G2, G3, G4
from pyvc.sym import SBool, SMap, StrSort, eq_z3, fresh_name, fresh_str, lit
from spec import v2, v3, v4

I = z3.IntSort()
B = z3.BoolSort()


def perm(ctx):
    g = {"2": G2, "3": G3, "4": G4}[ctx.case["version"]]
    a, b = fresh_str("va"), fresh_str("vb")
    maps = []
    for tag, vec in (("a", a), ("b", b)):
        dom = z3.Array(fresh_name("dom_" + tag), StrSort, B)
        val = z3.Array(fresh_name("val_" + tag), StrSort, StrSort)
        src = z3.Array(fresh_name("src_" + tag), StrSort, I)
        ctx.st.assume(g.parsed(vec.z, dom, val, src))
        maps.append((dom, val))
    pi = z3.Function(fresh_name("pi"), I, I)
    pinv = z3.Function(fresh_name("pinv"), I, I)
    La, Lb = g.L(a.z), g.L(b.z)
    j = z3.Int("j!perm")
    Fa, Fb = g.F(a.z, j), g.F(b.z, j)
    ctx.st.assume(La == Lb)
    ctx.st.assume(z3.ForAll([j], z3.Implies(z3.And(j >= 0, j < La),
                                            z3.And(pi(j) >= 0, pi(j) < Lb, Fa == g.F(b.z, pi(j)), pinv(pi(j)) == j)),
                            patterns=[Fa]))
    ctx.st.assume(z3.ForAll([j], z3.Implies(z3.And(j >= 0, j < Lb),
                                            z3.And(pinv(j) >= 0, pinv(j) < La, Fb == g.F(a.z, pinv(j)), pi(pinv(j)) == j)),
                            patterns=[Fb]))
    m = z3.Const(fresh_name("m"), StrSort)
    (da, va), (db, vb) = maps
    ctx.prove("perm/same-keys", z3.Select(da, m) == z3.Select(db, m),
              "a permutation of the fields denotes a map with the same keys")
    ctx.prove("perm/same-values", z3.Implies(z3.Select(da, m), z3.Select(va, m) == z3.Select(vb, m)),
              "... and the same value for every key")


class _Fake(object):
    module, qualname, inline_callees = "lemma", "spelling", ()


VERS = {
    "2": ("cvss2", C2.V2, v2, "ND", C2.canon2, ("base", "temporal", "env"), "v2view"),
    "3": ("cvss3", C3.V3, v3, "X", C3.canon3, ("base", "temporal", "env"), "v3view"),
    "4": ("cvss4", C4.V4, v4, "X", C4.canon4, ("score",), "v4view"),
}


def _respelled(view, spec, nd, mode):
    m = view.o
    dom, val = m.dom, m.val
    for k in spec.ORDER:
        if k in spec.BASE:
            continue
        p = z3.Select(m.dom, lit(k))
        v = z3.Select(m.val, lit(k))
        if mode == "spelled":
            dom = z3.Store(dom, lit(k), z3.BoolVal(True))
            val = z3.Store(val, lit(k), z3.If(p, v, lit(nd)))
        else:
            dom = z3.Store(dom, lit(k), z3.And(p, v != lit(nd)))
    return SMap(dom, val, None, mode)


def _z(r):
    return r.z if isinstance(r, SBool) else z3.BoolVal(bool(r))


def spelling(ctx):
    from pyvc.contract import REGISTRY, make_on_call

    ver, mode = ctx.case["version"], ctx.case["mode"]
    mod, View, spec, nd, canon, scores, attr = VERS[ver]
    eng, st = ctx.engine, ctx.st
    eng.hooks = {"on_call": make_on_call(_Fake(), eng), "empty_dict_is_map": True}
    A = View(ctx)
    x = A.obj("done")
    setattr(x, attr, A)
    derived = _respelled(A, spec, nd, mode)
    Bv = View(ctx, "y", omap=lambda c, values: map_from_smap(derived, values))
    if ver == "3":
        Bv.minor = A.minor
    y = Bv.obj("done")
    setattr(y, attr, Bv)
    tag = "spelling[%s]" % mode
    for s in scores:
        ctx.prove("%s/same-%s-score" % (tag, s), eq_z3(A.spec(s), Bv.spec(s)), "same %s score" % s)
    ctx.prove("%s/same-cleaned-vector" % tag, strings_equal(canon(A), canon(Bv)), "same cleaned vector (hence same hash)")
    rh = REGISTRY[(mod, mod.upper() + ".rh_vector")]
    ctx.prove("%s/same-rh-vector" % tag, strings_equal(rh.effect(eng, st, [x], {}), rh.effect(eng, st, [y], {})),
              "same Red Hat vector")
    if ver in ("2", "3"):
        sub = {"2": C2.subvector2, "3": C3.subvector3}[ver]
        for name, ms in (("temporal", spec.TEMPORAL), ("environmental", spec.ENVIRONMENTAL)):
            ctx.prove("%s/same-%s-vector" % (tag, name), strings_equal(sub(A, ms), sub(Bv, ms)), "same %s_vector()" % name)
    ctx.prove("%s/equal" % tag, _z(eng.equals(x, y, st)), "the two spellings compare equal")
    ctx.prove("%s/equal-symmetric" % tag, _z(eng.equals(y, x, st)), "and the other way round")
