"""
C06 -- non-interference lemmas about the specification functions the code is proved equal to
(the code side is the contracts: every score field equals Spec(Eff(O))).
"""
from __future__ import annotations

import z3

from contracts import cvss2 as C2, cvss3 as C3, cvss4 as C4
from contracts.common import lift
from pyvc import fd
from pyvc.sym import SBool, eq_z3
from spec import v2, v3, v4


def _z(r):
    return r.z if isinstance(r, SBool) else z3.BoolVal(bool(r))


def _same(a, b):
    return _z(lift(lambda x, y: x is None or y is None or x == y, a, b))


def base_support(node, view):
    """names of the metric-map variables a specification node depends on"""
    if not isinstance(node, fd.Node):
        return set()
    out = set()
    for a in fd.ancestors(node).values():
        if a.is_var:
            out.add(a.name)
    return out


def metric_of(varname):
    # "o.AV" / "o.p_MAV"
    n = varname.split(".", 1)[1]
    return n[2:] if n.startswith("p_") else n


def support_metrics(node, view):
    return {metric_of(n) for n in base_support(node, view) if n.startswith("o.")}


# ---- v3 ---------------------------------------------------------------------------------------
def ni_v3(ctx):
    v = C3.V3(ctx)
    # (a)/(d) a modified metric: undefined => the base value, defined => independent of the base metric
    for m in v3.MODIFIED:
        raw = C3.eff_fv(v.o, m, v3.VALUES[m], "X")
        undefined = eq_z3(raw, "X")
        ctx.prove("a[%s]" % m, z3.Implies(undefined, eq_z3(v.e[m], v.e[m[1:]])),
                  "(a) Not Defined %s counts as the base metric's value" % m)
        ctx.prove("d[%s]" % m, z3.Implies(z3.Not(undefined), eq_z3(v.e[m], raw)),
                  "(d) a defined %s is used as is, whatever the base metric" % m)
    env_support = support_metrics(v.spec("env"), v)
    overridable = {"AV", "AC", "PR", "UI", "S", "C", "I", "A"}
    # the environmental score reads base metrics only through the effective modified metrics
    e_nodes = {m: v.e[m] for m in v3.MODIFIED}
    direct = set()
    for p in fd.ancestors(v.spec("env")).values():
        if not p.is_var:
            for q in p.parents:
                if q.is_var and metric_of(q.name) in overridable and not any(p is e_nodes[mm] or p.id in fd.ancestors(e_nodes[mm]) for mm in e_nodes if isinstance(e_nodes[mm], fd.Node)):
                    direct.add(metric_of(q.name))
    ctx.prove("d[env reads base metrics only via modified]", not direct,
              "(d) the environmental score depends on base metrics only through the effective modified metrics (direct: %s)" % sorted(direct))
    # (e) supports
    bs = support_metrics(v.spec("base"), v)
    ctx.prove("e[base support]", bs <= set(v3.BASE), "(e) the base score depends on base metrics only (%s)" % sorted(bs - set(v3.BASE)))
    ts = support_metrics(v.spec("temporal"), v)
    ctx.prove("e[temporal support]", ts <= set(v3.BASE + v3.TEMPORAL),
              "(e) the temporal score depends on base and temporal metrics only (%s)" % sorted(ts - set(v3.BASE + v3.TEMPORAL)))
    # (b) X is equivalent to the declared value
    from lemmas.views import EffV3

    base = EffV3(ctx)
    for m, eqv in (("E", "H"), ("RL", "U"), ("RC", "C"), ("CR", "M"), ("IR", "M"), ("AR", "M")):
        a = base.with_fixed({m: "X"})
        b = base.with_fixed({m: eqv})
        for sc in ("temporal", "env") if m in v3.TEMPORAL else ("env",):
            ctx.prove("b[%s:X==%s:%s on %s]" % (m, m, eqv, sc), _same(a.spec(sc), b.spec(sc)),
                      "(b) %s:X scores like %s:%s" % (m, m, eqv))


# ---- v2 ---------------------------------------------------------------------------------------
def ni_v2(ctx):
    from lemmas.views import EffV2

    v = C2.V2(ctx)
    bs = support_metrics(v.spec("base"), v)
    ctx.prove("e[base support]", bs <= set(v2.BASE), "(e) the base score depends on base metrics only (%s)" % sorted(bs - set(v2.BASE)))
    ts = support_metrics(v.spec("temporal"), v)
    ctx.prove("e[temporal support]", ts <= set(v2.BASE + v2.TEMPORAL),
              "(e) the temporal score depends on base and temporal metrics only (%s)" % sorted(ts - set(v2.BASE + v2.TEMPORAL)))
    base = EffV2(ctx)
    for m, eqv in (("E", "H"), ("RL", "U"), ("RC", "C"), ("CDP", "N"), ("TD", "H"), ("CR", "M"), ("IR", "M"), ("AR", "M")):
        a = base.with_fixed({m: "ND"})
        b = base.with_fixed({m: eqv})
        names = ("temporal_eq", "env_eq") if m in v2.TEMPORAL else ("env_eq",)
        for sc in names:
            ctx.prove("b[%s:ND==%s:%s on %s]" % (m, m, eqv, sc), _same(a.spec(sc), b.spec(sc)),
                      "(b) %s:ND scores like %s:%s" % (m, m, eqv))


# ---- v4 ---------------------------------------------------------------------------------------
def ni_v4(ctx):
    v = C4.V4(ctx)
    for m in v4.MODIFIED:
        raw = v.raw[m]
        undefined = eq_z3(raw, "X")
        b = m[1:]
        ctx.prove("a[%s]" % m, z3.Implies(undefined, eq_z3(v.e[b], v.raw[b])),
                  "(a) with %s Not Defined the effective %s is the base value" % (m, b))
        ctx.prove("d[%s]" % m, z3.Implies(z3.Not(undefined), eq_z3(v.e[b], raw)),
                  "(d) a defined %s overrides %s whatever its value" % (m, b))
    for m, eqv in (("E", "A"), ("CR", "H"), ("IR", "H"), ("AR", "H")):
        ctx.prove("b[%s:X==%s]" % (m, eqv), z3.Implies(eq_z3(v.raw[m], "X"), eq_z3(v.e[m], eqv)),
                  "(b) %s:X counts as %s:%s" % (m, m, eqv))
    sup = support_metrics(v.spec("score"), v)
    bad = sup & set(v4.SUPPLEMENTAL)
    ctx.prove("c[supplemental not read]", not bad, "(c) the score does not depend on supplemental metrics (%s)" % sorted(bad))
    allowed = set(v4.SCORING) | set(v4.MODIFIED)
    ctx.prove("score support", sup <= allowed, "the score depends on scoring metrics only (%s)" % sorted(sup - allowed))
