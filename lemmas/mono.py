"""
C14 -- monotonicity of the specification functions the code is proved equal to.

For one metric K and one severity step lo -> hi the lemma compares the score nodes of two views
that share every other effective metric (same finite-domain variables) and decides
score[K:=hi] >= score[K:=lo] by explicit evaluation over all other metrics.
"""
from __future__ import annotations

from fractions import Fraction as F

import z3

from contracts.common import lift
from pyvc.sym import SBool
from spec import v2, v3, v4

from .views import EFF2, EFF3, EFF4, EffV2, EffV3, EffV4

# least severe -> most severe
ORDER4 = {
    "AV": ["P", "L", "A", "N"], "AC": ["H", "L"], "AT": ["P", "N"], "PR": ["H", "L", "N"],
    "UI": ["A", "P", "N"], "VC": ["N", "L", "H"], "VI": ["N", "L", "H"], "VA": ["N", "L", "H"],
    "SC": ["N", "L", "H"], "SI": ["N", "L", "H", "S"], "SA": ["N", "L", "H", "S"],
    "CR": ["L", "M", "H"], "IR": ["L", "M", "H"], "AR": ["L", "M", "H"], "E": ["U", "P", "A"],
}
ORDER3 = {
    "AV": ["P", "L", "A", "N"], "AC": ["H", "L"], "PR": ["H", "L", "N"], "UI": ["R", "N"],
    "S": ["U", "C"], "C": ["N", "L", "H"], "I": ["N", "L", "H"], "A": ["N", "L", "H"],
    "E": ["U", "P", "F", "H"], "RL": ["O", "T", "W", "U"], "RC": ["U", "R", "C"],
    "CR": ["L", "M", "H"], "IR": ["L", "M", "H"], "AR": ["L", "M", "H"],
}
for _m in v3.MODIFIED:
    ORDER3[_m] = ORDER3[_m[1:]]
ORDER2 = {
    "AV": ["L", "A", "N"], "AC": ["H", "M", "L"], "Au": ["M", "S", "N"],
    "C": ["N", "P", "C"], "I": ["N", "P", "C"], "A": ["N", "P", "C"],
    "E": ["U", "POC", "F", "H"], "RL": ["OF", "TF", "W", "U"], "RC": ["UC", "UR", "C"],
}

# the v3.0 environmental score is exempt for the impact and requirement metrics
EXEMPT30 = {"C", "I", "A", "MC", "MI", "MA", "CR", "IR", "AR"}


def steps(order):
    out = []
    for m, vals in order.items():
        for a, b in zip(vals, vals[1:]):
            out.append({"metric": m, "lo": a, "hi": b})
    return out


CASES4 = steps(ORDER4)
CASES3 = steps(ORDER3)
CASES2 = steps(ORDER2)


def _ge(a, b):
    r = lift(lambda x, y: x is None or y is None or y >= x, a, b)
    return r.z if isinstance(r, SBool) else z3.BoolVal(bool(r))


def mono_v4(ctx):
    c = ctx.case
    base = EffV4(ctx)
    lo = base.with_fixed({c["metric"]: c["lo"]})
    hi = base.with_fixed({c["metric"]: c["hi"]})
    ctx.prove("score[%s:%s] <= score[%s:%s]" % (c["metric"], c["lo"], c["metric"], c["hi"]),
              _ge(lo.spec("score"), hi.spec("score")),
              "v4.0: a more severe %s never lowers the score" % c["metric"])


def mono_v3(ctx):
    c = ctx.case
    k = c["metric"]
    base = EffV3(ctx)
    # a base metric step moves the effective modified metric too only when that is Not Defined;
    # effective assignments treat base and modified metrics as independent variables, so both
    # situations are covered (the step on the modified metric is its own case)
    lo = base.with_fixed({k: c["lo"]})
    hi = base.with_fixed({k: c["hi"]})
    if k in v3.BASE:
        ctx.prove("base[%s:%s->%s]" % (k, c["lo"], c["hi"]), _ge(lo.spec("base"), hi.spec("base")),
                  "v3: a more severe %s never lowers the base score" % k)
    if k in v3.BASE or k in v3.TEMPORAL:
        ctx.prove("temporal[%s:%s->%s]" % (k, c["lo"], c["hi"]), _ge(lo.spec("temporal"), hi.spec("temporal")),
                  "v3: a more severe %s never lowers the temporal score" % k)
    if k in v3.TEMPORAL or k in v3.ENVIRONMENTAL:
        for mn in (0, 1):
            if mn == 0 and k in EXEMPT30:
                continue
            l2 = EffV3(ctx, minor=mn, tag="m%d" % mn).with_fixed({})
            l2.e = dict(lo.e)
            h2 = EffV3.__new__(EffV3)
            h2.ctx, h2.minor, h2._spec = ctx, mn, {}
            h2.e = dict(hi.e)
            l2.minor = mn
            l2._spec = {}
            ctx.prove("env3.%d[%s:%s->%s]" % (mn, k, c["lo"], c["hi"]), _ge(l2.spec("env"), h2.spec("env")),
                      "v3.%d: a more severe %s never lowers the environmental score" % (mn, k))
    if k in v3.BASE:
        # a base metric whose modified metric is Not Defined also moves the modified metric
        mk = "M" + k
        for mn in (0, 1):
            if mn == 0 and k in EXEMPT30:
                continue
            l2 = EffV3.__new__(EffV3)
            l2.ctx, l2.minor, l2._spec = ctx, mn, {}
            l2.e = dict(base.e)
            l2.e.update({k: c["lo"], mk: c["lo"]})
            h2 = EffV3.__new__(EffV3)
            h2.ctx, h2.minor, h2._spec = ctx, mn, {}
            h2.e = dict(base.e)
            h2.e.update({k: c["hi"], mk: c["hi"]})
            ctx.prove("env3.%d[%s with %s undefined:%s->%s]" % (mn, k, mk, c["lo"], c["hi"]),
                      _ge(l2.spec("env"), h2.spec("env")),
                      "v3.%d: a more severe %s (modified metric undefined) never lowers the environmental score" % (mn, k))


def mono_v2(ctx):
    c = ctx.case
    k = c["metric"]
    base = EffV2(ctx)
    lo = base.with_fixed({k: c["lo"]})
    hi = base.with_fixed({k: c["hi"]})
    if k in v2.BASE:
        ctx.prove("base[%s:%s->%s]" % (k, c["lo"], c["hi"]), _ge(lo.spec("base"), hi.spec("base")),
                  "v2: a more severe %s never lowers the base score" % k)
    ctx.prove("temporal[%s:%s->%s]" % (k, c["lo"], c["hi"]), _ge(lo.spec("temporal_eq"), hi.spec("temporal_eq")),
              "v2: a more severe %s never lowers the temporal score" % k)
