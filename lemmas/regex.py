"""
Regular-language lemmas (C08, C10, C13), decided by z3's sequence/regex solver on closed
formulas:  L(A) subseteq L(B)  iff  InRe(x, Intersect(A, Complement(B))) is unsatisfiable.

Patterns are parsed with CPython's own regex parser (re._parser) and translated for the subset
that occurs (literals, classes, ranges, \\d, ., ?, *, +, {m,n}, groups, alternation, ^ and $ at
the ends).  The translation is assumption A4; it is cross-checked against `re` on sample strings
by pyvc.selftest.
"""
from __future__ import annotations

import ast
import re
import re._parser as sre_parse
import re._constants as C

import z3

from pyvc.source import sources
from spec import jsonschema as JS
from spec import v2, v3, v4

S = z3.StringSort()
ALL = z3.Full(z3.ReSort(S))


def lit(s):
    return z3.Re(z3.StringVal(s))


def union(xs):
    xs = list(xs)
    if not xs:
        return z3.Empty(z3.ReSort(S))
    return xs[0] if len(xs) == 1 else z3.Union(*xs)


def concat(xs):
    xs = [x for x in xs if x is not None]
    if not xs:
        return lit("")
    return xs[0] if len(xs) == 1 else z3.Concat(*xs)


def anychar():
    return z3.Range(chr(0), chr(0x10FFFF)) if False else z3.AllChar(z3.ReSort(S))


_FLAGS = [0]
_STATE = [None]
_CHARSETS = {}


def host_charset(op, av, flags):
    """the code points a one-character node (literal / class / category) matches under `flags`,
    obtained from CPython's own regex engine (ground facts): ranges [(lo, hi)]"""
    key = (repr((op, av)), int(flags))
    if key in _CHARSETS:
        return _CHARSETS[key]
    import re._compiler as sre_compile

    sp = sre_parse.SubPattern(_STATE[0], [(op, av)])
    pat = sre_compile.compile(sp, flags)
    fm = pat.fullmatch
    ranges = []
    start = None
    for c in range(0x110000):
        if 0xD800 <= c <= 0xDFFF:
            hit = False
        else:
            hit = fm(chr(c)) is not None
        if hit and start is None:
            start = c
        elif not hit and start is not None:
            ranges.append((start, c - 1))
            start = None
    if start is not None:
        ranges.append((start, 0x10FFFF))
    _CHARSETS[key] = ranges
    return ranges


def charset_re(ranges):
    return union([lit(chr(a)) if a == b else z3.Range(chr(a), chr(b)) for a, b in ranges])


def pattern_flags(flags):
    """flags that change which characters a node matches"""
    return int(flags) & int(re.IGNORECASE | re.ASCII | re.LOCALE)


def from_pattern(pattern, full=True, flags=0):
    """z3 regex of the language of strings the Python pattern matches *entirely*"""
    if int(flags) & int(re.VERBOSE | re.MULTILINE | re.DOTALL | re.LOCALE):
        raise NotImplementedError("regex flags %r" % (flags,))
    tree = sre_parse.parse(pattern, flags)
    _STATE[0] = tree.state
    # inline flags such as (?i) end up in the parser state
    _FLAGS[0] = pattern_flags(int(flags) | int(tree.state.flags))
    if int(tree.state.flags) & int(re.VERBOSE | re.MULTILINE | re.DOTALL | re.LOCALE):
        raise NotImplementedError("regex flags %r" % (tree.state.flags,))
    items = list(tree)
    if items and items[0][0] == C.AT and items[0][1] in (C.AT_BEGINNING, C.AT_BEGINNING_STRING):
        items = items[1:]
    if items and items[-1][0] == C.AT and items[-1][1] in (C.AT_END, C.AT_END_STRING):
        items = items[:-1]
    return seq(items)


def seq(items):
    return concat([node(op, av) for op, av in items])


def node(op, av):
    fl = _FLAGS[0]
    if fl & int(re.IGNORECASE) and op in (C.LITERAL, C.NOT_LITERAL, C.IN, C.CATEGORY):
        # case-insensitive matching: the exact character set comes from the host engine
        return charset_re(host_charset(op, av, fl))
    if op == C.IN and any(o == C.CATEGORY for o, _ in av):
        # \\d, \\w, \\s inside a class: exact (Unicode or ASCII) set from the host engine
        return charset_re(host_charset(op, av, fl))
    if op == C.CATEGORY:
        return charset_re(host_charset(C.IN, [(C.CATEGORY, av)], fl))
    if op == C.LITERAL:
        return lit(chr(av))
    if op == C.NOT_LITERAL:
        return z3.Intersect(anychar(), z3.Complement(lit(chr(av))))
    if op == C.ANY:
        return anychar()
    if op == C.IN:
        neg = False
        parts = []
        for o, a in av:
            if o == C.NEGATE:
                neg = True
            elif o == C.LITERAL:
                parts.append(lit(chr(a)))
            elif o == C.RANGE:
                parts.append(z3.Range(chr(a[0]), chr(a[1])))
            elif o == C.CATEGORY and a == C.CATEGORY_DIGIT:
                # ASCII digits only: the translation of \\d for non-ASCII digits is not needed
                # by any lemma (they are outside every vector alphabet) and is stated in A4
                parts.append(z3.Range("0", "9"))
            else:
                raise NotImplementedError("class item %r" % (o,))
        r = union(parts)
        return z3.Intersect(anychar(), z3.Complement(r)) if neg else r
    if op == C.CATEGORY and av == C.CATEGORY_DIGIT:
        return z3.Range("0", "9")
    if op in (C.MAX_REPEAT, C.MIN_REPEAT):
        lo, hi, sub = av
        r = seq(list(sub))
        if hi == C.MAXREPEAT:
            if lo == 0:
                return z3.Star(r)
            if lo == 1:
                return z3.Plus(r)
            return z3.Concat(z3.Loop(r, lo, lo), z3.Star(r))
        return z3.Loop(r, lo, hi)
    if op == C.SUBPATTERN:
        return seq(list(av[-1]))
    if op == C.BRANCH:
        return union([seq(list(b)) for b in av[1]])
    if op == C.AT:
        raise NotImplementedError("anchor inside a pattern")
    raise NotImplementedError("regex operator %r" % (op,))


def included(a, b, timeout=60000):
    """(status, witness): is L(a) a subset of L(b)?"""
    x = z3.String("x")
    s = z3.Solver()
    s.set("timeout", timeout)
    s.add(z3.InRe(x, z3.Intersect(a, z3.Complement(b))))
    r = s.check()
    if r == z3.unsat:
        return "discharged", None
    if r == z3.sat:
        return "refuted", s.model()[x].as_string()
    return "unknown", None


# ---- languages from the specification tables --------------------------------------------------
def field_re(m, vals):
    return z3.Concat(lit(m + ":"), union([lit(v) for v in vals]))


def any_order(values, prefix):
    """prefix + fields in any order, any multiplicity (superset of the grammar)"""
    f = union([field_re(m, vs) for m, vs in values.items()])
    return concat([lit(prefix) if prefix else None, f, z3.Star(z3.Concat(lit("/"), f))])


def contains_field(m):
    """strings in which some '/'-separated field starts with m + ':'"""
    return z3.Concat(z3.Union(lit(""), z3.Concat(ALL, lit("/"))), lit(m + ":"), ALL)


def valid_superset(values, mandatory, prefixes):
    """a regular superset of the valid vectors: grammar shape + every mandatory metric occurs"""
    outs = []
    for p in prefixes:
        g = any_order(values, p)
        for m in mandatory:
            g = z3.Intersect(g, z3.Concat(lit(p), contains_field(m)) if p else contains_field(m))
        outs.append(g)
    return union(outs)


def canonical(values, order, mandatory, prefixes, nd):
    """the emitted language: prefix + defined metrics in `order`, Not Defined never written"""
    outs = []
    for p in prefixes:
        parts = []
        first = True
        for m in order:
            vs = [v for v in values[m] if v != nd]
            f = field_re(m, vs)
            if m in mandatory:
                parts.append(f if first else z3.Concat(lit("/"), f))
            else:
                parts.append(z3.Option(z3.Concat(lit("/"), f)))
            first = False
        outs.append(concat([lit(p) if p else None] + parts))
    return union(outs)


def canonical_with_nd(values, order, mandatory, prefixes):
    """vectors whose fields are in specification order (values may be Not Defined)"""
    return canonical(values, order, mandatory, prefixes, nd="\0")


SPECS = {
    "2": (v2.VALUES, v2.ORDER, v2.BASE, [""], "ND", "2.0"),
    "3.0": (v3.VALUES, v3.ORDER, v3.BASE, ["CVSS:3.0/"], "X", "3.0"),
    "3.1": (v3.VALUES, v3.ORDER, v3.BASE, ["CVSS:3.1/"], "X", "3.1"),
    "4": (v4.VALUES, v4.ORDER, v4.BASE, ["CVSS:4.0/"], "X", "4.0"),
}


def official(ver):
    return from_pattern(JS.load(SPECS[ver][5])["properties"]["vectorString"]["pattern"])


def parser_pattern():
    """(pattern, flags) of the candidate pattern of the current tree's parser.py: the first
    constant string passed to re.compile, with the flags argument evaluated over `re`'s constants
    (None for flags that are not such an expression)"""
    tree = sources().ast_of("parser")
    for n in ast.walk(tree):
        if isinstance(n, ast.Call) and isinstance(n.func, ast.Attribute) and n.func.attr == "compile" and n.args:
            a = n.args[0]
            if isinstance(a, ast.Constant) and isinstance(a.value, str):
                fexpr = n.args[1] if len(n.args) > 1 else next((k.value for k in n.keywords if k.arg == "flags"), None)
                flags = 0
                if fexpr is not None:
                    try:
                        for x in ast.walk(fexpr):
                            if not isinstance(x, (ast.BinOp, ast.BitOr, ast.Attribute, ast.Name, ast.Load, ast.Constant)):
                                raise ValueError(ast.dump(x))
                        flags = int(eval(compile(ast.Expression(fexpr), "<flags>", "eval"), {"re": re, "__builtins__": {}}))
                    except Exception:  # noqa
                        flags = None
                return a.value, flags
    return None


def greedy_only(tree):
    for op, av in tree:
        if op in (C.MIN_REPEAT, C.BRANCH):
            return False
        if op == C.MAX_REPEAT and not greedy_only(av[2]):
            return False
        if op == C.SUBPATTERN and not greedy_only(av[-1]):
            return False
    return True


def _emit(ctx, name, status, witness, detail):
    from pyvc.interp import Obligation

    ob = Obligation("lemma:regex/%s" % name, status, detail, model={"witness": witness} if witness is not None else None, kind="lemma")
    ob.backend = "z3-regex"
    ctx.st.obligations.append(ob)


# ---- lemma units --------------------------------------------------------------------------------
def emitted_in_official(ctx):
    """C08: the canonical (emitted) language of each version is inside the official pattern"""
    ver = ctx.case["version"]
    values, order, mand, prefixes, nd, _ = SPECS[ver]
    st, w = included(canonical(values, order, mand, prefixes, nd), official(ver))
    _emit(ctx, "emitted[%s] in official vectorString pattern" % ver, st, w,
          "prefix + defined metrics in specification order matches the schema's vectorString pattern")


def grammar_in_official(ctx):
    """C10: accepted vectors (their vectorString) match the schema pattern"""
    ver = ctx.case["version"]
    values, order, mand, prefixes, nd, _ = SPECS[ver]
    off = official(ver)
    st, w = included(z3.Intersect(valid_superset(values, mand, prefixes), canonical_with_nd(values, order, mand, prefixes)), off)
    _emit(ctx, "accepted[%s] in specification order in official pattern" % ver, st, w,
          "accepted vectors whose fields are in specification order match the schema's vectorString pattern")
    st, w = included(valid_superset(values, mand, prefixes), off)
    _emit(ctx, "accepted[%s] in any order in official pattern" % ver, st, w,
          "every accepted vector (any field order) matches the schema's vectorString pattern")


def parser_complete(ctx):
    """C13: language facts behind completeness of parse_cvss_from_text"""
    pf = parser_pattern()
    if pf is None or pf[1] is None:
        ctx.fail("parser-pattern", "no constant pattern with constant flags is compiled in parser.py", status="unknown")
        return
    pat, flags = pf
    try:
        P = from_pattern(pat, flags=flags)
    except NotImplementedError as e:
        ctx.fail("parser-pattern", "pattern outside the translated subset: %s" % e, status="unknown")
        return
    sigma = union([z3.Range("A", "Z"), z3.Range("a", "z"), lit(":"), lit("/")])
    delim = z3.Intersect(anychar(), z3.Complement(sigma))
    letter = union([z3.Range("A", "Z"), z3.Range("a", "z")])
    # a candidate match cannot run across a delimiter into a vector (the characters outside
    # [A-Za-z:/] the pattern can match -- those of the optional prefix group -- are never followed
    # by a letter, and every valid vector starts with a letter) ...
    st, w = included(P, z3.Complement(z3.Concat(ALL, delim, letter, ALL)))
    _emit(ctx, "no candidate runs from a delimiter into a vector", st, w,
          "no string the candidate pattern %r (flags %d) matches contains a character outside [A-Za-z:/] followed by a letter" % (pat, flags))
    # ... nor past the delimiter that ends a vector
    for ver in ("2", "3.0", "3.1"):
        values, order, mand, prefixes, nd, _ = SPECS[ver]
        V = valid_superset(values, mand, prefixes)
        st, w = included(P, z3.Complement(z3.Concat(V, delim, ALL)))
        _emit(ctx, "no candidate extends a valid[%s] vector past its right delimiter" % ver, st, w,
              "no string the candidate pattern matches is a valid v%s vector followed by a character outside [A-Za-z:/]" % ver)
    if not greedy_only(sre_parse.parse(pat, flags)):
        ctx.fail("parser-pattern-greedy", "the candidate pattern uses alternation or lazy repetition: leftmost match need not be the longest", status="unknown")
    for ver in ("2", "3.0", "3.1"):
        values, order, mand, prefixes, nd, _ = SPECS[ver]
        V = valid_superset(values, mand, prefixes)
        st, w = included(V, P)
        _emit(ctx, "valid[%s] matched entirely by the candidate pattern" % ver, st, w,
              "every valid v%s vector is matched as a whole by %r" % (ver, pat))
        first = z3.Concat(union([z3.Range("A", "Z"), z3.Range("a", "z")]), ALL)
        st, w = included(V, first)
        _emit(ctx, "valid[%s] starts with a letter" % ver, st, w,
              "a delimiter swallowed by the optional prefix group cannot be followed by a vector's first character")
    v3start = z3.Concat(lit("CVSS:3."), ALL)
    values, order, mand, prefixes, nd, _ = SPECS["2"]
    st, w = included(valid_superset(values, mand, prefixes), z3.Complement(v3start))
    _emit(ctx, "valid[2] never starts with CVSS:3.", st, w, "v2 vectors are dispatched to CVSS2")
    for ver in ("3.0", "3.1"):
        values, order, mand, prefixes, nd, _ = SPECS[ver]
        st, w = included(valid_superset(values, mand, prefixes), v3start)
        _emit(ctx, "valid[%s] starts with CVSS:3." % ver, st, w, "v3 vectors are dispatched to CVSS3")
    # characters: after the (optional) prefix a valid vector only uses characters of the class,
    # so a delimited occurrence is a maximal run
    cls = z3.Star(union([z3.Range("A", "Z"), z3.Range("a", "z"), lit(":"), lit("/")]))
    values, order, mand, prefixes, nd, _ = SPECS["2"]
    st, w = included(valid_superset(values, mand, prefixes), cls)
    _emit(ctx, "valid[2] uses class characters only", st, w, "the candidate run cannot end inside a vector")
    for ver in ("3.0", "3.1"):
        values, order, mand, prefixes, nd, _ = SPECS[ver]
        st, w = included(valid_superset(values, mand, prefixes), z3.Concat(lit(prefixes[0]), cls))
        _emit(ctx, "valid[%s] uses class characters only after the prefix" % ver, st, w, "the candidate run cannot end inside a vector")
