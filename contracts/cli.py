"""
Contract on cvss/cvss_calculator.py::main (C17), modulo assumption A5:

  argparse   ArgumentParser(...).add_argument(...) calls are recorded; parse_args() returns a
             namespace whose __dict__ lists the destinations in add_argument order with the
             values of the command line of the case (flags) -- VECTOR is an abstract string
  json       json.dumps(doc, indent=2) is an opaque injective function of the document
  print      appends to the ghost stdout;  input: ghost stdin (through the builder's contract)

Command-line domain (cases): at most one of -2/-3/-4, any of -a -n -j, -v VECTOR present
(non-empty abstract string, not starting with '-') or absent.
"""
from __future__ import annotations

import argparse
import json

import z3

from pyvc import strings as S
from pyvc.contract import Contract, REGISTRY, register
from pyvc.interp import PyRaise, Unsupported
from pyvc.sym import FV, SObj, SStr, StrSort, fresh_str, lit, mk_str

from . import init as _init  # noqa: F401
from .common import strings_equal

f_dumps = z3.Function("json_dumps_indent2", StrSort, z3.IntSort(), StrSort)
JSON_MARK = "\x00json.dumps#%d\x00"


class FakeParser(object):
    def __init__(self):
        self.arguments = []  # (flags, kwargs)


class Namespace(object):
    pass


class JsonDoc(object):
    def __init__(self, obj, sort, minimal):
        self.obj, self.sort, self.minimal = obj, sort, minimal


def dest_of(flags, kwargs):
    if "dest" in kwargs:
        return kwargs["dest"]
    longs = [f for f in flags if f.startswith("--")]
    if longs:
        return longs[0][2:].replace("-", "_")
    return flags[0].lstrip("-").replace("-", "_")


VERSIONS = {None: 3.1, "2": 2, "3": 3.0, "4": 4.0}


@register
class Main(Contract):
    module, qualname = "cvss_calculator", "main"
    may_print = True
    modifies = frozenset()
    cases = tuple(
        {"ver": ver, "all": a, "no_colors": n, "json": j, "vector": vec}
        for ver in (None, "2", "3", "4") for a in (False, True) for n in (False, True)
        for j in (False, True) for vec in (True, False)
    )

    def setup(self, ctx):
        ctx.data["vector"] = fresh_str("VECTOR") if ctx.case["vector"] else None
        if ctx.data["vector"] is not None:
            ctx.assume(ctx.data["vector"].z != lit(""))
            ctx.engine.model_terms.append(("VECTOR", ctx.data["vector"].z))
        ctx.data["json_calls"] = []
        ctx.data["builder_calls"] = []
        ctx.data["constructed"] = []
        return [], {}

    def hooks(self, ctx):
        case = ctx.case

        def host_call(eng, st, fn, args, kwargs):
            if fn is argparse.ArgumentParser:
                p = FakeParser()
                ctx.data["parser"] = p
                return True, p
            return False, None

        def method_call(eng, st, recv, name, args, kwargs):
            if isinstance(recv, FakeParser):
                if name == "add_argument":
                    recv.arguments.append((list(args), dict(kwargs)))
                    return True, None
                if name == "parse_args" and not args:
                    ns = Namespace()
                    given = {"2": case["ver"] == "2", "3": case["ver"] == "3", "4": case["ver"] == "4",
                             "all": case["all"], "no_colors": case["no_colors"], "json": case["json"]}
                    for flags, kw in recv.arguments:
                        d = dest_of(flags, kw)
                        if kw.get("action") == "store_true":
                            ns.__dict__[d] = bool(given.get(d, False))
                        elif d == "vector":
                            ns.__dict__[d] = ctx.data["vector"]
                        else:
                            ns.__dict__[d] = kw.get("default")
                    return True, ns
                raise Unsupported("ArgumentParser.%s" % name)
            return False, None

        def json_dumps(eng, st, args, kwargs):
            doc = args[0]
            ctx.data["json_calls"].append((doc, dict(kwargs)))
            if isinstance(doc, JsonDoc):
                # an opaque text: a marker no other printed piece can contain
                return JSON_MARK % len(ctx.data["json_calls"])
            raise Unsupported("json.dumps of a document that is not the result of as_json")

        base_on_call = None

        def on_call(eng, st, f, args, kwargs):
            if f.module is not None and f.module.name == "interactive" and f.name == "ask_interactively":
                ctx.data["builder_calls"].append((list(args), dict(kwargs)))
                if st.decide(z3.Bool("stdin_eof_during_builder"), "EOF during interactive entry?"):
                    raise PyRaise(EOFError, ())
                return True, fresh_str("built_vector")
            if f.name == "as_json" and f.cls is not None and args and isinstance(args[0], SObj):
                sort = kwargs.get("sort", args[1] if len(args) > 1 else False)
                minimal = kwargs.get("minimal", args[2] if len(args) > 2 else False)
                return True, JsonDoc(args[0], sort, minimal)
            if f.name == "__init__" and f.cls is not None and f.cls.name in ("CVSS2", "CVSS3", "CVSS4"):
                r = ctx.data["base_on_call"](eng, st, f, args, kwargs)
                ctx.data["constructed"].append(f.cls.name)
                ctx.data["object"] = args[0]
                return r
            return ctx.data["base_on_call"](eng, st, f, args, kwargs)

        ctx.data["base_on_call"] = ctx.engine.hooks["on_call"]
        return {"host_call": host_call, "method_call": method_call, "json_dumps": json_dumps, "on_call": on_call}

    # -------------------------------------------------------------------------------------------
    def check_return(self, ctx, value):
        case = ctx.case
        st = ctx.st
        version = VERSIONS[case["ver"]]
        out = list(st.stdout)
        interactive = not case["vector"]
        if interactive:
            ctx.prove("post:builder-called-for-selected-version",
                      len(ctx.data["builder_calls"]) == 1 and ctx.data["builder_calls"][0][0][:3] == [version, case["all"], case["no_colors"]],
                      "without -v the builder is asked once for the selected version with -a / -n")
        else:
            ctx.prove("post:builder-not-called", not ctx.data["builder_calls"], "with -v the builder is not used")
        objs = [e[1] for e in st.events if e[0] == "constructed"]
        # which object was constructed: read it off the prints of its accessors
        want_cls = {2: "CVSS2", 3.0: "CVSS3", 3.1: "CVSS3", 4.0: "CVSS4"}[version]
        cons = ctx.data["constructed"]
        ctx.prove("post:class-dispatch", all(c == want_cls for c in cons) and len(cons) <= 1,
                  "the vector is given to %s (constructed: %s)" % (want_cls, cons))
        eof_path = bool(ctx.data["builder_calls"]) and not cons and out and out[-1] == "\n"
        if not cons:
            # error message or clean end of input
            ctx.prove("post:no-result-lines-without-object", len(out) <= 1, "nothing but the error message is printed")
            return
        o = ctx.data["object"]
        view_scores = REGISTRY[({"CVSS2": "cvss2", "CVSS3": "cvss3", "CVSS4": "cvss4"}[want_cls], want_cls + ".scores")].effect(ctx.engine, st, [o], {})
        exp = [want_cls + "\n"]
        names = ["Base Score", "Temporal Score", "Environmental Score"]
        sevs = None
        if version >= 3.0:
            sevs = REGISTRY[({"CVSS3": "cvss3", "CVSS4": "cvss4"}[want_cls], want_cls + ".severities")].effect(ctx.engine, st, [o], {})
        for i, nm in enumerate(names):
            if i >= len(view_scores):
                break
            exp.append(nm + ":" + " " * (24 - len(nm) - 2))
            sc = self.to_text(ctx, view_scores[i])
            if version >= 3.0:
                exp.append(S.concat_all([sc, " ", S.concat_all(["(", sevs[i], ")"]), "\n"]))
            else:
                exp.append(S.concat(sc, "\n"))
        mod = {"CVSS2": "cvss2", "CVSS3": "cvss3", "CVSS4": "cvss4"}[want_cls]
        cv = REGISTRY[(mod, want_cls + ".clean_vector")].effect(ctx.engine, st, [o], {})
        rh = REGISTRY[(mod, want_cls + ".rh_vector")].effect(ctx.engine, st, [o], {})
        exp.append(S.concat_all(["Cleaned vector:       ", " ", cv, "\n"]))
        exp.append(S.concat_all(["Red Hat vector:       ", " ", rh, "\n"]))
        if case["json"]:
            jc = ctx.data["json_calls"]
            ok = len(jc) == 1 and isinstance(jc[0][0], JsonDoc) and jc[0][0].obj is o and jc[0][0].sort is True \
                and jc[0][0].minimal is True and jc[0][1] == {"indent": 2}
            ctx.prove("post:json-is-sorted-minimal-as_json", ok, "-j prints json.dumps(as_json(sort=True, minimal=True), indent=2)")
            exp.append("CVSS vector in JSON:\n" + (JSON_MARK % 1) + "\n")
        else:
            ctx.prove("post:no-json-without-j", not ctx.data["json_calls"], "no JSON without -j")
        # the printed text as a whole (not the way it is cut into print calls)
        from pyvc.sym import eq_z3

        got_text, want_text = S.concat_all(out), S.concat_all(exp)
        z = S.structural_eq(got_text, want_text, eq_z3)
        if z is None:
            if isinstance(got_text, str) and isinstance(want_text, str):
                z = z3.BoolVal(got_text == want_text)
            else:
                raise Unsupported("standard output of an unexpected shape (%d pieces printed)" % len(out))
        ctx.prove("post:stdout", z, "the printed text is exactly what the library API reports, line by line")

    def to_text(self, ctx, v):
        from pyvc.models import builtin_str

        return builtin_str(ctx.engine, v, ctx.st)

    def check_raise(self, ctx, exc):
        ctx.fail("raises:%s" % exc.exc_cls.__name__, "%s escapes main(): the calculator would exit with a traceback" % exc.exc_cls.__name__)
