"""
Contracts on check_mandatory, __init__ and from_rh_vector (C04, C12) for v2 and v3.

Opaque vocabulary used at constructor level (defined by the parse contracts, contracts/parse.py):
  Syn_v(s)        the string is in version v's grammar
  pp_v_K(s)       metric K is present in the map the fields of s denote
  pv_v_K_x(s)     ... with value x
The constructor's contract: returns  ==> Syn_v(s) /\ every mandatory metric present /\ WF_v(self)
with O = the map denoted by s;  raises <V>MalformedError ==> not Syn_v(s);
raises <V>MandatoryError ==> Syn_v(s) /\ some mandatory metric absent;  nothing else escapes.
"""
from __future__ import annotations

import z3

from pyvc import fd
from pyvc import strings as S
from pyvc.contract import Contract, register
from pyvc.interp import PyRaise, Unsupported
from pyvc.sym import SMap, SObj, SStr, SBool, FV, StrSort, TERM_REG, fresh_str, lit, mk_str, str_z, eq_z3
from spec import v2 as S2, v3 as S3, v4 as S4

from . import cvss2 as C2, cvss3 as C3, cvss4 as C4
from .common import di_matches, map_equal
from .parse import G2, G3, G4

B = z3.BoolSort()
f_syn = {"2": z3.Function("Syn2", StrSort, B), "3": z3.Function("Syn3", StrSort, B),
         "4": z3.Function("Syn4", StrSort, B)}
f_minor3 = z3.Function("minor3", StrSort, z3.IntSort())


def opaque_map(ctx, version, values, vec, prefix):
    """the metric map denoted by `vec`, as per-key variables that are functions of vec"""
    dom = z3.K(StrSort, z3.BoolVal(False))
    val = z3.K(StrSort, lit(""))
    info = {}
    vz = str_z(vec)
    for k, vals in values.items():
        bs = [z3.Function("pv%s_%s_%s" % (version, k, x), StrSort, B)(vz) for x in vals]
        vnode = fd.var("%s.%s" % (prefix, k), list(vals), guards=bs)
        v = lit(vals[-1])
        for b, x in reversed(list(zip(bs, vals))[:-1]):
            v = z3.If(b, lit(x), v)
        p = z3.Function("pp%s_%s" % (version, k), StrSort, B)(vz)
        np_ = z3.Function("pa%s_%s" % (version, k), StrSort, B)(vz)
        pnode = fd.var("%s.p_%s" % (prefix, k), [False, True], guards=[np_, p])
        ctx.engine.model_terms.append(("%s.p_%s" % (prefix, k), p))
        ctx.engine.model_terms.append(("%s.v_%s" % (prefix, k), v))
        dom = z3.Store(dom, lit(k), p)
        val = z3.Store(val, lit(k), v)
        info[k] = (p, dict(zip(vals, bs)), vnode, pnode)
        TERM_REG[v.get_id()] = (vnode, v)
        ctx.st.ensure_defs(bs + [p])
    m = SMap(dom, val, None, prefix)
    m.info = info
    return m


def map_from_smap(m, values):
    """view of a metric map the real parser produced from a structured string: presence and
    value of every specification key as finite-domain nodes derived from the map's terms"""
    from pyvc.sym import bool_node_strict, term_to_fd

    info = {}
    for k in values:
        p = z3.simplify(z3.Select(m.dom, lit(k)))
        v = z3.simplify(z3.Select(m.val, lit(k)))
        pn = bool_node_strict(p)
        if pn is None:
            raise Unsupported("presence of %s is not a finite-domain condition" % k)
        vn = term_to_fd(v)
        if vn is None:
            raise Unsupported("value of %s is not a finite-domain term" % k)
        # the stored value is meaningful only when the key is present: absent -> a legal dummy
        from pyvc import fd as _fd

        dummy = values[k][0]
        legal = set(values[k])
        vn = _fd.apply(lambda pr, x: x if (pr and x in legal) else dummy, pn, vn) if isinstance(vn, _fd.Node) or isinstance(pn, _fd.Node) else (vn if vn in legal else dummy)
        info[k] = (p, None, vn, pn)
    out = SMap(m.dom, m.val, None, "y")
    out.info = info
    return out


class Shim(object):
    """what the view builders need from a Ctx, for use inside callee effects"""

    def __init__(self, eng, st):
        self.engine = eng
        self.st = st
        self.data = {}

    def assume(self, z):
        self.st.assume(z)


# ---------------------------------------------------------------------------------------------
# check_mandatory


class CheckMandatory(Contract):
    grammar = None
    cls = None
    mandatory_error = None
    modifies = frozenset()

    def setup(self, ctx):
        g = self.grammar
        cls = ctx.engine.module(self.module).globals[self.cls]
        o = SObj(cls)
        o.fields["vector"] = fresh_str("vector")
        m = opaque_map(ctx, g.version, g.values, o.fields["vector"], "o")
        o.fields["metrics"] = m
        o.fields["missing_metrics"] = []
        o.assumed_state = True  # attributes set earlier in __init__ that this pre-state does not list: undecided, no AttributeError
        ctx.data["self"] = o
        ctx.data["map"] = m
        ctx.data["frozen_maps"] = [("self.metrics", m)]
        return [o], {}

    def check_return(self, ctx, value):
        m = ctx.data["map"]
        ctx.prove("post:all-mandatory-present", self.grammar.mand(m.dom),
                  "normal return implies every mandatory metric is present")

    def check_raise(self, ctx, exc):
        want = ctx.engine.module("exceptions").globals[self.mandatory_error]
        if exc.exc_cls is not want:
            ctx.fail("raises:%s" % exc.exc_cls.__name__, "%s escapes check_mandatory" % exc.exc_cls.__name__)
            return
        ctx.prove("raises:%s=>missing" % self.mandatory_error, z3.Not(self.grammar.mand(ctx.data["map"].dom)),
                  "the mandatory-metric error is raised only when a mandatory metric is absent")

    def effect(self, eng, st, args, kwargs):
        o = args[0]
        m = o.fields.get("metrics")
        if not isinstance(m, SMap):
            return NotImplemented
        if not st.decide(self.grammar.mand(m.dom), "mandatory present?"):
            raise PyRaise(eng.module("exceptions").globals[self.mandatory_error], ("Missing mandatory metrics",))
        return None


@register
class CheckMandatory2(CheckMandatory):
    module, qualname, cls = "cvss2", "CVSS2.check_mandatory", "CVSS2"
    grammar = G2
    mandatory_error = "CVSS2MandatoryError"


@register
class CheckMandatory3(CheckMandatory):
    module, qualname, cls = "cvss3", "CVSS3.check_mandatory", "CVSS3"
    grammar = G3
    mandatory_error = "CVSS3MandatoryError"


@register
class CheckMandatory4(CheckMandatory):
    module, qualname, cls = "cvss4", "CVSS4.check_mandatory", "CVSS4"
    grammar = G4
    mandatory_error = "CVSS4MandatoryError"


# ---------------------------------------------------------------------------------------------
# parse_vector as seen by the constructor


def parse_effect(version, grammar, malformed, view_cls, attach):
    def effect(self, eng, st, args, kwargs):
        o = args[0]
        vec = o.fields.get("vector")
        if not isinstance(vec, SStr):
            return NotImplemented  # concrete vectors are simply executed
        if isinstance(vec, S.SCat):
            # a structured string (one the library emitted): the real parser runs on it
            from pyvc.contract import lookup_function

            f = lookup_function(eng, self.module, self.qualname)
            eng.run_body(f, args, kwargs, st)
            m = o.fields.get("metrics")
            if not isinstance(m, SMap):
                raise Unsupported("parse_vector on a structured string did not produce a metric map")
            shim = Shim(eng, st)
            view = view_cls(shim, "y", omap=lambda c, values: map_from_smap(m, values))
            if version == "3":
                view.minor = o.fields.get("minor_version")
            attach(o, view)
            return None
        syn = f_syn[version](vec.z)
        if not st.decide(syn, "Syn?"):
            raise PyRaise(eng.module("exceptions").globals[malformed], ("malformed",))
        shim = Shim(eng, st)
        view = view_cls(shim, "o", omap=lambda c, values: opaque_map(c, version, values, vec, "o"))
        attach(o, view)
        m = SMap(view.o.dom, view.o.val, None, "metrics")
        m.info = view.o.info
        eng.set_attr(o, "metrics", m, st)
        if version == "3":
            eng.set_attr(o, "minor_version", view.minor, st)
        return None

    return effect


# ---------------------------------------------------------------------------------------------
# constructors


class Init(Contract):
    grammar = None
    cls = None
    version = None
    malformed = None
    mandatory_error = None
    modifies = None

    def setup(self, ctx):
        cls = ctx.engine.module(self.module).globals[self.cls]
        o = SObj(cls)
        vec = fresh_str("vector")
        ctx.data["self"] = o
        ctx.data["vec"] = vec
        ctx.engine.model_terms.append(("vector", vec.z))
        return [o, vec], {}

    def check_raise(self, ctx, exc):
        ex = ctx.engine.module("exceptions").globals
        vec = ctx.data["vec"]
        syn = f_syn[self.version](vec.z)
        if exc.exc_cls is ex[self.malformed]:
            ctx.prove("raises:%s=>not-syn" % self.malformed, z3.Not(syn),
                      "the malformed-vector error is raised only for strings outside the grammar")
        elif exc.exc_cls is ex[self.mandatory_error]:
            o = ctx.data["self"]
            m = o.fields.get("metrics")
            ok = isinstance(m, SMap)
            ctx.prove("raises:%s=>syn-and-missing" % self.mandatory_error,
                      z3.And(syn, z3.Not(self.grammar.mand(m.dom))) if ok else False,
                      "the mandatory-metric error is raised only for a well-formed vector lacking a mandatory metric")
        else:
            ctx.fail("raises:%s" % exc.exc_cls.__name__,
                     "%s%r escapes the constructor (outside the CVSSError hierarchy or wrong class)"
                     % (exc.exc_cls.__name__, exc.exc_args[:1]))


@register
class Init3(Init):
    module, qualname, cls = "cvss3", "CVSS3.__init__", "CVSS3"
    grammar, version = G3, "3"
    malformed, mandatory_error = "CVSS3MalformedError", "CVSS3MandatoryError"

    def check_return(self, ctx, value):
        o, vec = ctx.data["self"], ctx.data["vec"]
        v = getattr(o, "v3view", None)
        if v is None:
            ctx.fail("post:view", "constructor finished without parsing the vector", status="unknown")
            return
        ctx.prove("post:syn", f_syn["3"](vec.z), "a constructed object comes from a string in the grammar")
        ctx.prove("post:mandatory", G3.mand(v.o.dom), "every mandatory metric is present")
        ctx.prove("post:vector", eq_z3(o.fields.get("vector"), vec), "self.vector is the supplied string")
        ctx.prove("post:minor", eq_z3(o.fields.get("minor_version"), v.minor), "minor_version as parsed")
        om, m = o.fields.get("original_metrics"), o.fields.get("metrics")
        if not (isinstance(om, SMap) and isinstance(m, SMap)):
            ctx.fail("post:maps", "metrics / original_metrics are not metric maps", status="unknown")
            return
        ctx.prove("post:original==O", map_equal(om.dom, om.val, v.o.dom, v.o.val, S3.ORDER), "original_metrics == parsed map")
        fd_, fv_ = C3.fill_map(v.o)
        ctx.prove("post:metrics==Fill(O)", map_equal(m.dom, m.val, fd_, fv_, S3.ORDER), "metrics == Fill3(O)")
        ctx.prove("post:scope", eq_z3(o.fields.get("scope"), mk_str(v.o.get("S"))), "scope == O[S]")
        ctx.prove("post:modified_scope", eq_z3(o.fields.get("modified_scope"), v.mscope_str()), "modified scope")
        for n in ("base_score", "temporal_score", "environmental_score"):
            ctx.prove("post:%s" % n, C3.field_ok(o, v, n), "%s equals the specification function of (minor, O)" % n)

    def effect(self, eng, st, args, kwargs):
        o = args[0]
        vec = args[1] if len(args) > 1 else kwargs.get("vector")
        if not isinstance(vec, SStr) or isinstance(vec, S.SCat):
            return NotImplemented
        ex = eng.module("exceptions").globals
        if not st.decide(f_syn["3"](vec.z), "Syn3?"):
            raise PyRaise(ex["CVSS3MalformedError"], ("malformed",))
        shim = Shim(eng, st)
        view = C3.V3(shim, "o%d" % len(st.trace), omap=lambda c, values: opaque_map(c, "3", values, vec, "o"))
        if not st.decide(G3.mand(view.o.dom), "Mand3?"):
            raise PyRaise(ex["CVSS3MandatoryError"], ("missing",))
        full = view.obj("done")
        o.fields.update(full.fields)
        o.fields["vector"] = vec
        o.v3view = view
        return None


@register
class Init2(Init):
    module, qualname, cls = "cvss2", "CVSS2.__init__", "CVSS2"
    grammar, version = G2, "2"
    malformed, mandatory_error = "CVSS2MalformedError", "CVSS2MandatoryError"

    def check_return(self, ctx, value):
        o, vec = ctx.data["self"], ctx.data["vec"]
        v = getattr(o, "v2view", None)
        if v is None:
            ctx.fail("post:view", "constructor finished without parsing the vector", status="unknown")
            return
        ctx.prove("post:syn", f_syn["2"](vec.z), "a constructed object comes from a string in the grammar")
        ctx.prove("post:mandatory", G2.mand(v.o.dom), "every mandatory metric is present")
        ctx.prove("post:vector", eq_z3(o.fields.get("vector"), vec), "self.vector is the supplied string")
        m = o.fields.get("metrics")
        if not isinstance(m, SMap):
            ctx.fail("post:maps", "metrics is not a metric map", status="unknown")
            return
        ctx.prove("post:metrics==O", map_equal(m.dom, m.val, v.o.dom, v.o.val, S2.ORDER), "metrics == parsed map")
        for n, sname in (("base_score", "base"), ("temporal_score", "temporal"), ("environmental_score", "env")):
            ctx.prove("post:%s" % n, di_matches(o.fields.get(n), v.spec(sname), max_scale=1, strict_zero=True),
                      "%s equals the specification function of O" % n)

    def effect(self, eng, st, args, kwargs):
        o = args[0]
        vec = args[1] if len(args) > 1 else kwargs.get("vector")
        if not isinstance(vec, SStr) or isinstance(vec, S.SCat):
            return NotImplemented
        ex = eng.module("exceptions").globals
        if not st.decide(f_syn["2"](vec.z), "Syn2?"):
            raise PyRaise(ex["CVSS2MalformedError"], ("malformed",))
        shim = Shim(eng, st)
        view = C2.V2(shim, "o", omap=lambda c, values: opaque_map(c, "2", values, vec, "o"))
        if not st.decide(G2.mand(view.o.dom), "Mand2?"):
            raise PyRaise(ex["CVSS2MandatoryError"], ("missing",))
        full = view.obj("done")
        o.fields.update(full.fields)
        o.fields["vector"] = vec
        o.v2view = view
        return None


@register
class Init4(Init):
    module, qualname, cls = "cvss4", "CVSS4.__init__", "CVSS4"
    grammar, version = G4, "4"
    malformed, mandatory_error = "CVSS4MalformedError", "CVSS4MandatoryError"

    def check_return(self, ctx, value):
        from .common import float_matches

        o, vec = ctx.data["self"], ctx.data["vec"]
        v = getattr(o, "v4view", None)
        if v is None:
            ctx.fail("post:view", "constructor finished without parsing the vector", status="unknown")
            return
        ctx.prove("post:syn", f_syn["4"](vec.z), "a constructed object comes from a string in the grammar")
        ctx.prove("post:mandatory", G4.mand(v.o.dom), "every mandatory metric is present")
        ctx.prove("post:vector", eq_z3(o.fields.get("vector"), vec), "self.vector is the supplied string")
        om, m = o.fields.get("original_metrics"), o.fields.get("metrics")
        if not (isinstance(om, SMap) and isinstance(m, SMap)):
            ctx.fail("post:maps", "metrics / original_metrics are not metric maps", status="unknown")
            return
        ctx.prove("post:original==O", map_equal(om.dom, om.val, v.o.dom, v.o.val, S4.ORDER), "original_metrics == parsed map")
        fd_, fv_ = C4.fill_map4(v.o)
        ctx.prove("post:metrics==Fill(O)", map_equal(m.dom, m.val, fd_, fv_, S4.ORDER), "metrics == Fill4(O)")
        ctx.prove("post:base_score", float_matches(o.fields.get("base_score"), v.spec("score")),
                  "base_score equals float(Score4(Eff4(O)))")
        ctx.prove("post:severity", eq_z3(o.fields.get("severity"), v.spec("severity")), "severity is the official rating")

    def effect(self, eng, st, args, kwargs):
        o = args[0]
        vec = args[1] if len(args) > 1 else kwargs.get("vector")
        if not isinstance(vec, SStr) or isinstance(vec, S.SCat):
            return NotImplemented
        ex = eng.module("exceptions").globals
        if not st.decide(f_syn["4"](vec.z), "Syn4?"):
            raise PyRaise(ex["CVSS4MalformedError"], ("malformed",))
        shim = Shim(eng, st)
        view = C4.V4(shim, "o", omap=lambda c, values: opaque_map(c, "4", values, vec, "o"))
        if not st.decide(G4.mand(view.o.dom), "Mand4?"):
            raise PyRaise(ex["CVSS4MandatoryError"], ("missing",))
        full = view.obj("done")
        o.fields.update(full.fields)
        o.fields["vector"] = vec
        o.v4view = view
        return None


def _attach4(o, view):
    o.v4view = view


def _attach3(o, view):
    o.v3view = view


def _attach2(o, view):
    o.v2view = view


# the constructors see parse_vector through this effect
from .parse import ParseVector2, ParseVector3, ParseVector4  # noqa: E402

ParseVector4.effect = parse_effect("4", G4, "CVSS4MalformedError", C4.V4, _attach4)

ParseVector3.effect = parse_effect("3", G3, "CVSS3MalformedError", C3.V3, _attach3)
ParseVector2.effect = parse_effect("2", G2, "CVSS2MalformedError", C2.V2, _attach2)


# ---------------------------------------------------------------------------------------------
# from_rh_vector (C12)


class FromRh(Contract):
    """<Class>.from_rh_vector on an arbitrary string"""

    version = None
    cls = None
    grammar = None
    modifies = None

    def setup(self, ctx):
        cls = ctx.engine.module(self.module).globals[self.cls]
        rh = fresh_str("rh")
        ctx.data["rh"] = rh
        ctx.data["cls"] = cls
        ctx.engine.model_terms.append(("rh", rh.z))
        # the assumed split facts (A1) for this string
        for f in S.SplitResult(rh, "/").facts() + S.tail1_facts(rh, "/"):
            ctx.assume(f)
        return [cls, rh], {}

    def terms(self, ctx):
        rh = ctx.data["rh"]
        has_slash = S.f_nparts(rh.z, lit("/")) >= 2
        head = S.f_part(rh.z, lit("/"), 0)
        tail = S.f_tail1(rh.z, lit("/"))
        return has_slash, head, tail

    def check_return(self, ctx, value):
        has_slash, head, tail = self.terms(ctx)
        v = self.version
        ok = isinstance(value, SObj) and value.cls is ctx.data["cls"]
        ctx.prove("post:returns-object-of-class", ok, "the result is an object of the class")
        if not ok:
            return
        ctx.prove("post:built-from-vector-part", eq_z3(value.fields.get("vector"), SStr(tail)),
                  "the object is constructed from the text after the first '/'")
        ctx.prove("post:has-slash-and-numeric", z3.And(has_slash, S.f_numeric(head)),
                  "accepted only if there is a '/' and the score part parses as a number")
        view = getattr(value, "v%sview" % v, None)
        if view is None:
            ctx.fail("post:view", "object without a parsed view", status="unknown")
            return
        from pyvc.models import float_real

        sc, _ = float_real(score_float_of(view, v))
        ctx.prove("post:score-equal", z3.And(z3.Not(S.f_fnan(head)), S.f_fval(head) == sc),
                  "accepted only if the number equals the computed base score exactly")

    def check_raise(self, ctx, exc):
        ex = ctx.engine.module("exceptions").globals
        has_slash, head, tail = self.terms(ctx)
        v = self.version
        name = exc.exc_cls.__name__
        syn = f_syn[v](tail)
        if exc.exc_cls is ex["CVSS%sRHMalformedError" % v]:
            ctx.prove("raises:RHMalformed=>no-slash-or-not-numeric", z3.Or(z3.Not(has_slash), z3.Not(S.f_numeric(head))),
                      "the RH-malformed error is raised only for a missing or non-numeric score part")
        elif exc.exc_cls is ex["CVSS%sRHScoreDoesNotMatch" % v]:
            ctx.prove("raises:ScoreDoesNotMatch=>valid-vector-and-numeric", z3.And(has_slash, S.f_numeric(head), syn),
                      "the score-mismatch error is raised only for a numeric score and a valid vector part")
            obj = ctx.data.get("constructed")
            if obj is not None and getattr(obj, "v%sview" % v, None) is not None:
                from pyvc.models import float_real

                view = getattr(obj, "v%sview" % v)
                sc, _ = float_real(score_float_of(view, v))
                ctx.prove("raises:ScoreDoesNotMatch=>scores-differ", z3.Or(S.f_fnan(head), S.f_fval(head) != sc),
                          "the score-mismatch error is raised only when the number differs from the base score")
        elif exc.exc_cls is ex["CVSS%sMalformedError" % v]:
            ctx.prove("raises:Malformed=>vector-part-malformed", z3.And(has_slash, S.f_numeric(head), z3.Not(syn)),
                      "the ordinary malformed error comes from the vector part")
        elif exc.exc_cls is ex["CVSS%sMandatoryError" % v]:
            ctx.prove("raises:Mandatory=>vector-part", z3.And(has_slash, S.f_numeric(head), syn),
                      "the mandatory-metric error comes from the vector part")
        else:
            ctx.fail("raises:%s" % name, "%s escapes from_rh_vector" % name)

    def hooks(self, ctx):
        base = ctx.engine.hooks["on_call"]

        def on_call(eng, st, f, args, kwargs):
            r = base(eng, st, f, args, kwargs)
            if f.name == "__init__" and args and isinstance(args[0], SObj):
                ctx.data["constructed"] = args[0]
            return r

        return {"on_call": on_call}


def score_float_of(view, v):
    """the very node the scores() contract hands to callers (same guards, no definitions needed)"""
    if v == "4":
        return view.spec("score_float")
    mod = {"2": C2, "3": C3}[v]
    eff = REG_SCORES[v].effect(None, None, [view._owner], {}) if getattr(view, "_owner", None) is not None else None
    if eff is not None:
        return eff[0]
    return lift_float(view.spec("base"))


REG_SCORES = {}


def lift_float(spec):
    from .common import lift

    return lift(lambda x: None if x is None else x.numerator / x.denominator, spec)


@register
class FromRh2(FromRh):
    module, qualname, cls, version, grammar = "cvss2", "CVSS2.from_rh_vector", "CVSS2", "2", G2


@register
class FromRh3(FromRh):
    module, qualname, cls, version, grammar = "cvss3", "CVSS3.from_rh_vector", "CVSS3", "3", G3


@register
class FromRh4(FromRh):
    module, qualname, cls, version, grammar = "cvss4", "CVSS4.from_rh_vector", "CVSS4", "4", G4
