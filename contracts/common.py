"""
Shared builders for side-car contracts: symbolic well-formed metric maps, effective-value
finite choices, conversion between specification rationals and certified Decimal enclosures.
"""
from __future__ import annotations

from fractions import Fraction

import z3

from pyvc import strings as S
from pyvc.sym import (
    DI,
    FV,
    SBool,
    SMap,
    SObj,
    SStr,
    StrSort,
    _and,
    _or,
    concrete_eq,
    eq_z3,
    fv_apply,
    leaves_of,
    lit,
    mk_bool,
    mk_str,
    regroup,
    str_to_fv,
    str_z,
)


_LIFT_MEMO = {}


def lift(f, *args, **kw):
    """
    leaf-wise application; with memo=<key> the value table computed on the first path of a unit
    is reused on later paths (paths rebuild the same nodes in the same order)
    """
    from pyvc import fd
    from pyvc.sym import bool_node, bool_of_node

    key = kw.get("memo")
    if key is None:
        return fv_apply(f, *args)
    args = [bool_node(a.z) if isinstance(a, SBool) else a for a in args]
    nodes = []
    for a in args:
        if isinstance(a, fd.Node) and a not in nodes:
            nodes.append(a)
    from pyvc.sym import vkey

    # the table is reusable only for operands with the very same value lists (same order)
    shape = tuple(
        ("node", nodes.index(a), tuple(repr(vkey(x)) for x in a.values)) if isinstance(a, fd.Node)
        else ("const", repr(vkey(a)))
        for a in args
    )

    def wrap(r):
        if isinstance(r, fd.Node) and len(r.values) == 2 and r.values[0] is False and r.values[1] is True:
            return SBool(bool_of_node(r))
        return r

    hit = _LIFT_MEMO.get(key)
    if hit is not None and hit[0] == shape:
        vals, table = hit[1], hit[2]
        if table is None:
            return vals
        return wrap(fd.Node(list(vals), nodes, table))
    try:
        r = fd.apply(f, *args)
    except fd.ApplyRaise:
        return fv_apply(f, *args)
    if isinstance(r, fd.Node):
        if list(r.parents) == nodes:
            _LIFT_MEMO[key] = (shape, list(r.values), r.table)
    else:
        _LIFT_MEMO[key] = (shape, r, None)
    return wrap(r)


def fv_int_var(ctx, name, values):
    """finite-choice integer variable (one-hot Booleans <name>=v)"""
    from pyvc import fd

    bs = [z3.Bool("%s=%s" % (name, x)) for x in values]
    n = fd.var(name, list(values), guards=bs)
    t = z3.IntVal(values[-1])
    for b, x in reversed(list(zip(bs, values))[:-1]):
        t = z3.If(b, z3.IntVal(x), t)
    ctx.engine.model_terms.append((name, t))
    ctx.st.ensure_defs(bs)
    return n


def fv_bool_var(ctx, name):
    v = z3.Bool(name)
    ctx.engine.model_terms.append((name, v))
    return SBool(v)


def build_map(ctx, prefix, values, mandatory, allow_absent=True):
    """
    A symbolic metric map over per-key finite-domain variables: <prefix>.K (value, one-hot
    Booleans <prefix>.K=v) and <prefix>.p_K (present).  Assumes the representation invariant:
    only keys of `values`, every present value legal, every mandatory key present.  The value
    term stored in the z3 array is the ITE over the one-hot Booleans.
    """
    from pyvc import fd

    dom = z3.K(StrSort, z3.BoolVal(False))
    val = z3.K(StrSort, lit(""))
    info = {}
    for k, vals in values.items():
        bs = [z3.Bool("%s.%s=%s" % (prefix, k, x)) for x in vals]
        vnode = fd.var("%s.%s" % (prefix, k), list(vals), guards=bs)
        v = lit(vals[-1])
        for b, x in reversed(list(zip(bs, vals))[:-1]):
            v = z3.If(b, lit(x), v)
        if k in mandatory:
            p = z3.BoolVal(True)
            pnode = True
        else:
            p = z3.Bool("%s.p_%s" % (prefix, k))
            np_ = z3.Bool("%s.absent_%s" % (prefix, k))
            pnode = fd.var("%s.p_%s" % (prefix, k), [False, True], guards=[np_, p])
            ctx.engine.model_terms.append(("%s.p_%s" % (prefix, k), p))
        ctx.engine.model_terms.append(("%s.v_%s" % (prefix, k), v))
        dom = z3.Store(dom, lit(k), p)
        val = z3.Store(val, lit(k), v)
        info[k] = (p, dict(zip(vals, bs)), vnode, pnode)
        from pyvc.sym import TERM_REG

        TERM_REG[v.get_id()] = (vnode, v)
        ctx.st.ensure_defs(bs + ([p] if pnode is not True else []))
    m = SMap(dom, val, None, prefix)
    m.info = info
    return m


def eff_str(m, key, default):
    """abstract string: m.get(key, default)"""
    has = m.has(key)
    if z3.is_true(has):
        return mk_str(m.get(key))
    return mk_str(z3.If(has, m.get(key), lit(default)))


def eff_fv(m, key, domain, default=None):
    """finite choice of the value of `key` in map m (absent -> default)"""
    info = getattr(m, "info", None)
    if info is not None and key in info:
        p, bs, vnode, pnode = info[key]
        if default is None or pnode is True:
            return vnode
        return fv_apply(lambda pr, x: x if pr else default, pnode, vnode)
    if default is None:
        return str_to_fv(mk_str(m.get(key)), domain)
    dom = list(domain) if default in domain else list(domain) + [default]
    return str_to_fv(eff_str(m, key, default), dom)


def frac_to_di(scale, zsign="+"):
    """spec rational -> exact Decimal enclosure; zsign '?' = sign of a zero is not promised"""

    def conv(x):
        if x is None:
            return None
        return DI(Fraction(x), Fraction(x), scale=scale, zsign=zsign)

    return conv


def within(err):
    e = Fraction(err)

    def conv(x):
        if x is None:
            return None
        x = Fraction(x)
        return DI(x - e, x + e)

    return conv


def _pred(r):
    """result of a lifted predicate -> z3 Boolean"""
    from pyvc import fd
    from pyvc.sym import bool_of_node

    if isinstance(r, SBool):
        return r.z
    if isinstance(r, fd.Node):
        return bool_of_node(r)
    return z3.BoolVal(bool(r))


def _match(value, spec, key_a, window, ok):
    """
    Boolean node: ok(a, b) for the co-occurring leaves; candidates are found by numeric
    proximity (bisect) instead of testing all pairs.  key_a(a) -> Fraction or None;
    window(a) -> (lo, hi) range of specification values that can match.
    """
    import bisect
    from pyvc import fd

    av = fd.values_of(value)
    bv = fd.values_of(spec)
    nums = []
    for j, b in enumerate(bv):
        x = getattr(b, "x", b)
        if x is None:
            continue
        nums.append((Fraction(x), j))
    nums.sort()
    keys = [t[0] for t in nums]
    nones = [j for j, b in enumerate(bv) if getattr(b, "x", b) is None]
    pairs = []
    for i, a in enumerate(av):
        if a is None:
            pairs.extend((i, j) for j in nones)
            continue
        w = window(a)
        if w is None:
            continue
        lo, hi = w
        k = bisect.bisect_left(keys, lo)
        while k < len(keys) and keys[k] <= hi:
            j = nums[k][1]
            if ok(a, bv[j]):
                pairs.append((i, j))
            k += 1
    return _pred(fd.relation(value, spec, pairs))


def di_matches(value, spec, max_scale=None, err=None, strict_zero=False):
    """
    the code's value (DI leaves) agrees with the specification value (Fraction leaves): equal
    and exact (scale <= max_scale, and +0 when strict_zero) or enclosed within err of it
    """
    e = None if err is None else Fraction(err)

    def ok(a, b):
        if not isinstance(a, DI):
            return False
        b = Fraction(b)
        if e is None:
            if not (a.lo == a.hi == b and a.scale is not None):
                return False
            if max_scale is not None and a.scale > max_scale:
                return False
            if strict_zero and a.lo == 0 and a.zsign != "+":
                return False
            return True
        return b - e <= a.lo and a.hi <= b + e

    def window(a):
        if not isinstance(a, DI):
            return None
        if e is None:
            return (a.lo, a.hi)
        return (a.hi - e, a.lo + e)

    return _match(value, spec, None, window, ok)


def values_equal(a, b):
    return eq_z3(a, b)


def float_matches(value, spec):
    """code float (leaves: Python floats, exact) equals float(spec rational) and is not -0.0"""
    import struct

    def ok(a, b):
        if not isinstance(a, float) or isinstance(a, bool):
            return False
        fb = Fraction(b)
        return struct.pack(">d", a) == struct.pack(">d", fb.numerator / fb.denominator)

    def window(a):
        if not isinstance(a, float) or a != a or a in (float("inf"), float("-inf")):
            return None
        f = Fraction(a)
        return (f - Fraction(1, 10 ** 6), f + Fraction(1, 10 ** 6))

    return _match(value, spec, None, window, ok)


def map_equal(a_dom, a_val, b_dom, b_val, keys):
    """extensional equality of two metric maps built as store chains"""
    conj = [a_dom == b_dom]
    for k in keys:
        kz = lit(k)
        conj.append(z3.Implies(z3.Select(a_dom, kz), z3.Select(a_val, kz) == z3.Select(b_val, kz)))
    return z3.And(*conj)


class Enc(object):
    """specification value together with the promised representation: exact(scale) or within(err)"""

    __slots__ = ("x", "scale", "err")

    def __init__(self, x, scale=None, err=None):
        self.x = Fraction(x)
        self.scale = scale
        self.err = None if err is None else Fraction(err)

    def __eq__(self, o):
        return isinstance(o, Enc) and (self.x, self.scale, self.err) == (o.x, o.scale, o.err)

    def __hash__(self):
        return hash((self.x, self.scale, self.err))

    def __repr__(self):
        return "Enc(%s,%s,%s)" % (float(self.x), self.scale, self.err)

    def di(self):
        if self.err is None:
            return DI(self.x, self.x, scale=self.scale, zsign="?")
        return DI(self.x - self.err, self.x + self.err)

    def admits(self, a):
        if not isinstance(a, DI):
            return False
        if self.err is None:
            return a.lo == a.hi == self.x and a.scale is not None and a.scale <= self.scale
        return self.x - self.err <= a.lo and a.hi <= self.x + self.err


def enc_matches(value, spec):
    """every code leaf is admitted by the specification leaf (Enc) it co-occurs with"""

    def window(a):
        if not isinstance(a, DI):
            return None
        e = Fraction(1, 10 ** 12)
        return (a.lo - e, a.hi + e)

    return _match(value, spec, None, window, lambda a, b: isinstance(b, Enc) and b.admits(a))


def enc_value(spec):
    return fv_apply(lambda e: e.di(), spec)




# --------------------------------------------------------------------------------------------
# structured strings of the specification


def defined_guard(m, key, nd):
    """z3 Boolean: metric `key` is present in map m with a value other than Not Defined"""
    from pyvc.sym import bool_of_node

    info = m.info[key]
    p, bs, vnode, pnode = info
    n = fv_apply(lambda pr, x: bool(pr) and x != nd, pnode, vnode)
    if isinstance(n, SBool):
        return n.z
    return z3.BoolVal(bool(n))


def field_fv(key, value):
    """finite choice of 'K:v' strings"""
    return fv_apply(lambda x: "%s:%s" % (key, x), value)


def canon_string(prefix, m, order, nd):
    """prefix + '/'.join('K:v' for the metrics of `order` defined in m)"""
    from pyvc import strings as S

    items = []
    for k in order:
        p, bs, vnode, pnode = m.info[k]
        items.append((defined_guard(m, k, nd), field_fv(k, vnode)))
    return S.concat(prefix, S.SCat([S.JoinPiece("/", items)]))


def strings_equal(a, b):
    """z3 Boolean: two (structured / finite-choice / concrete) strings are equal"""
    from pyvc import strings as S

    if isinstance(a, S.SCat) or isinstance(b, S.SCat):
        z = S.structural_eq(a, b, eq_z3)
        if z is not None:
            return z
        # outside the rule's side conditions: an abstract equality; a counter-model of it is
        # believed only after both sides have been evaluated on the structure under that model
        z = eq_z3(a, b)
        S.EQ_REG[z.get_id()] = (z, a, b)
        return z
    return eq_z3(a, b)


# --------------------------------------------------------------------------------------------
# JSON documents with conditionally present keys


class Unset(object):
    pass


def json_doc_obligations(ctx, result, spec_items, sort, interp_unbound):
    """
    result: the dict returned by as_json (concrete keys; values concrete / finite choice whose
    UNBOUND leaf means 'key absent' / abstract string).
    spec_items: [(key, presence z3 Boolean, value)] in the specification's order.
    Emits: same key set, per key same presence and same value, ascending key order when sorted.
    """
    from pyvc.interp import UNBOUND
    from pyvc.sym import fv_guard_of

    if not isinstance(result, dict):
        ctx.fail("post:type", "as_json() does not return a dict")
        return
    keys = list(result.keys())
    want_keys = [k for k, _, _ in spec_items]
    extra = sorted(set(keys) - set(want_keys))
    ctx.prove("post:no-extra-fields", not extra,
              "the document has no field outside the specified ones (extra: %s)" % extra[:6])
    if sort:
        ctx.prove("post:sorted", keys == sorted(keys), "sort=True yields ascending key order")
        import collections

        ctx.prove("post:sorted-type", isinstance(result, collections.OrderedDict), "sort=True returns an OrderedDict")
    by = {k: (p, v) for k, p, v in spec_items}
    group_presence = {}
    for k in want_keys:
        p, want = by[k]
        got = result.get(k, UNBOUND)
        if isinstance(got, FV) and any(x is UNBOUND for x in got.values):
            present = z3.Not(fv_guard_of(got, lambda x: x is UNBOUND))
        else:
            present = z3.BoolVal(got is not UNBOUND)
        if isinstance(p, tuple):
            # ("atleast", lower bound, group): present whenever the bound holds; the fields of a
            # group are present or absent together
            _, low, grp = p
            ctx.prove("post:present[%s]" % k, z3.Implies(low, present),
                      "field %s is present whenever its group has a defined metric (or minimal is off)" % k)
            if grp in group_presence:
                ctx.prove("post:group-together[%s]" % k, present == group_presence[grp],
                          "the fields of group %s are kept or omitted together" % grp)
            else:
                group_presence[grp] = present
            p = present
        else:
            ctx.prove("post:present[%s]" % k, present == p, "field %s is present exactly when specified" % k)
        st = ctx.st
        # value equality under presence
        if isinstance(want, (SStr,)) or isinstance(got, SStr):
            goal = eq_z3(got, want) if not isinstance(got, FV) else z3.BoolVal(False)
        else:
            if_defined = isinstance(want, tuple) and len(want) == 2 and want[0] == "if-defined"
            nocase = isinstance(want, tuple) and len(want) == 2 and want[0] == "severity-up-to-case"
            if if_defined or nocase:
                want = want[1]

            def same(a, b):
                if a is UNBOUND:
                    return True
                if b is None and if_defined:
                    return True
                if nocase:
                    return isinstance(a, str) and isinstance(b, str) and a.upper() == b.upper()
                if isinstance(b, Fraction):
                    import struct

                    return isinstance(a, float) and struct.pack(">d", a) == struct.pack(">d", b.numerator / b.denominator)
                return type(a) is type(b) and a == b

            r = fv_apply(same, got, want)
            goal = r.z if isinstance(r, SBool) else z3.BoolVal(bool(r))
        ctx.prove("post:value[%s]" % k, z3.Implies(p, goal), "field %s has the specified value" % k)
