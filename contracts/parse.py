"""
Contracts on parse_vector / check_mandatory of the three classes (C04).

Vocabulary (all uninterpreted, pyvc.strings, assumption A1):
  F(j)   = part(vector, "/", j + off)     the j-th field after the prefix (off = 0 for v2, 1 else)
  L      = nparts(vector, "/") - off       number of fields
  mt(j)  = part(F(j), ":", 0),  vl(j) = part(F(j), ":", 1)
  Valid(f) := f != "" /\ nparts(f, ":") == 2 /\ \/_{(m,v) in the SPECIFICATION's tables} mt == m /\ vl == v
  Syn(vector) := PrefixOk(vector) /\ (forall j in [0,L): Valid(F(j))) /\ (forall j<k<L: mt(j) != mt(k))

parse_vector:  returns normally  ==>  Syn(vector) /\ Parsed(vector, metrics, src)   (src ghost)
               raises <V>MalformedError  ==>  not Syn(vector);   nothing else escapes
Since every path ends in one of the two, both implications are equivalences.
Parsed(vector, M, src) := (forall j in [0,L): dom[mt(j)] /\ src[mt(j)] == j /\ val[mt(j)] == vl(j))
                        /\ (forall m: dom[m] ==> 0 <= src[m] < L /\ mt(src[m]) == m)
"""
from __future__ import annotations

import z3

from pyvc import strings as S
from pyvc.contract import Contract, register
from pyvc.interp import PyRaise
from pyvc.sym import SMap, SObj, SStr, StrSort, fresh_name, fresh_str, lit, mk_str
from spec import v2 as S2, v3 as S3, v4 as S4

I = z3.IntSort()


class Grammar(object):
    def __init__(self, version, values, mandatory, prefixes, off):
        self.version = version
        self.values = values
        self.mandatory = mandatory
        self.prefixes = prefixes  # list of (prefix part0 literal, minor) ; [] for v2
        self.off = off

    # ---- terms over an abstract vector --------------------------------------------------------
    def F(self, vz, j):
        return S.f_part(vz, lit("/"), j + self.off) if self.off else S.f_part(vz, lit("/"), j)

    def L(self, vz):
        n = S.f_nparts(vz, lit("/"))
        return n - self.off if self.off else n

    @staticmethod
    def mt(f):
        return S.f_part(f, lit(":"), 0)

    @staticmethod
    def vl(f):
        return S.f_part(f, lit(":"), 1)

    def valid(self, f):
        pairs = []
        for m, vs in self.values.items():
            pairs.append(z3.And(self.mt(f) == lit(m), z3.Or(*[self.vl(f) == lit(v) for v in vs])))
        return z3.And(f != lit(""), S.f_nparts(f, lit(":")) == 2, z3.Or(*pairs))

    def prefix_ok(self, vz):
        if not self.prefixes:
            return z3.BoolVal(True)
        n = S.f_nparts(vz, lit("/"))
        p0 = S.f_part(vz, lit("/"), 0)
        return z3.And(n >= 2, z3.Or(*[p0 == lit(p) for p, _ in self.prefixes]))

    def syn(self, vz):
        j, k = z3.Ints("j!syn k!syn")
        L = self.L(vz)
        allvalid = z3.ForAll([j], z3.Implies(z3.And(j >= 0, j < L), self.valid(self.F(vz, j))),
                             patterns=[self.F(vz, j)])
        distinct = z3.ForAll(
            [j, k],
            z3.Implies(z3.And(j >= 0, j < k, k < L), self.mt(self.F(vz, j)) != self.mt(self.F(vz, k))),
            patterns=[z3.MultiPattern(self.F(vz, j), self.F(vz, k))],
        )
        return z3.And(self.prefix_ok(vz), allvalid, distinct)

    def parsed(self, vz, dom, val, src, upto=None):
        """the parse relation restricted to the first `upto` fields (all fields when None)"""
        j = z3.Int("j!par")
        m = z3.Int("m!par")
        n = self.L(vz) if upto is None else upto
        fj = self.F(vz, j)
        a = z3.ForAll(
            [j],
            z3.Implies(
                z3.And(j >= 0, j < n),
                z3.And(self.valid(fj), z3.Select(dom, self.mt(fj)), z3.Select(src, self.mt(fj)) == j,
                       z3.Select(val, self.mt(fj)) == self.vl(fj)),
            ),
            patterns=[fj],
        )
        sm = z3.Select(src, m)
        b = z3.ForAll(
            [m],
            z3.Implies(z3.Select(dom, m), z3.And(sm >= 0, sm < n, self.mt(self.F(vz, sm)) == m)),
            patterns=[z3.Select(dom, m)],
        )
        return z3.And(a, b)

    def facts(self, vec):
        """instances of the assumed str contracts (A1) for this vector"""
        vz = vec.z
        out = list(S.SplitResult(vec, "/").facts())
        out.append(z3.Implies(S.f_endswith(vz, lit("/")), S.f_contains(vz, lit("/"))))
        for p, _ in self.prefixes:
            out.extend(S.startswith_facts(vec, p, "/"))
        return out

    def mand(self, dom):
        return z3.And(*[z3.Select(dom, lit(m)) for m in self.mandatory])


G2 = Grammar("2", S2.VALUES, S2.BASE, [], 0)
G3 = Grammar("3", S3.VALUES, S3.BASE, [("CVSS:3.0", 0), ("CVSS:3.1", 1)], 1)
G4 = Grammar("4", S4.VALUES, S4.BASE, [("CVSS:4.0", None)], 1)


class ParseInvariant(object):
    def __init__(self, g, st, vec, metrics, name):
        self.g = g
        self.st = st
        self.vec = vec
        self.metrics = metrics
        self.name = name
        self.src = z3.K(StrSort, z3.IntVal(-1))
        self.i = None

    def holds(self, i):
        return self.g.parsed(self.vec.z, self.metrics.dom, self.metrics.val, self.src, upto=i)

    def havoc(self):
        self.metrics.dom = z3.Array(fresh_name("dom"), StrSort, z3.BoolSort())
        self.metrics.val = z3.Array(fresh_name("val"), StrSort, StrSort)
        self.src = z3.Array(fresh_name("src"), StrSort, I)

    def enter_iteration(self, i):
        self.i = i

    def exit_loop(self):
        self.i = None

    def on_store(self, key):
        if self.i is not None:
            from pyvc.sym import str_z

            self.src = z3.Store(self.src, str_z(key), self.i)


class ParseVector(Contract):
    """<Class>.parse_vector"""

    grammar = None
    cls = None
    malformed = None  # exception class name
    modifies = frozenset(["metrics", "minor_version"])

    def setup(self, ctx):
        g = self.grammar
        eng = ctx.engine
        cls = eng.module(self.module).globals[self.cls]
        o = SObj(cls)
        vec = fresh_str("vector")
        o.fields["vector"] = vec
        o.fields["metrics"] = SMap.empty("metrics")
        o.fields["minor_version"] = None
        o.fields["missing_metrics"] = []
        o.assumed_state = True  # attributes set earlier in __init__ that this pre-state does not list: undecided, no AttributeError
        for f in g.facts(vec):
            ctx.assume(f)
        ctx.data["self"] = o
        ctx.data["vec"] = vec
        ctx.data["inv"] = None
        ctx.engine.model_terms.append(("vector", vec.z))
        return [o], {}

    def hooks(self, ctx):
        g = self.grammar

        def loop_invariant(eng, st, frame, seq, node):
            o = ctx.data["self"]
            m = o.fields["metrics"]
            if not isinstance(m, SMap):
                return None
            inv = ParseInvariant(g, st, ctx.data["vec"], m, "%s/loop0" % self.oid)
            ctx.data["inv"] = inv
            return inv

        def on_map_store(eng, st, m, key, v):
            inv = ctx.data.get("inv")
            if inv is not None and m is inv.metrics:
                inv.on_store(key)

        return {"loop_invariant": loop_invariant, "on_map_store": on_map_store}

    def check_return(self, ctx, value):
        g = self.grammar
        o, vec, inv = ctx.data["self"], ctx.data["vec"], ctx.data["inv"]
        m = o.fields.get("metrics")
        if inv is None or not isinstance(m, SMap):
            ctx.fail("post:loop", "parse_vector returned without running its field loop over a metric map", status="unknown")
            return
        ctx.prove("post:syn", g.syn(vec.z), "normal return implies the vector is in the version's grammar")
        ctx.prove("post:parsed", g.parsed(vec.z, m.dom, m.val, inv.src),
                  "metrics is exactly the map the fields denote")
        # ground consequences callers use: only specification keys, only legal values
        k = z3.Int("k!dom")
        ctx.prove("post:keys", z3.ForAll([k], z3.Implies(z3.Select(m.dom, k), z3.Or(*[k == lit(x) for x in g.values])),
                                          patterns=[z3.Select(m.dom, k)]),
                  "every key of metrics is a metric of this version")
        for key, vals in g.values.items():
            ctx.prove("post:legal[%s]" % key,
                      z3.Implies(z3.Select(m.dom, lit(key)), z3.Or(*[z3.Select(m.val, lit(key)) == lit(x) for x in vals])),
                      "a stored %s value is legal" % key)
        if g.prefixes:
            mv = o.fields.get("minor_version")
            p0 = S.f_part(vec.z, lit("/"), 0)
            from pyvc.sym import eq_z3

            want = z3.And(*[z3.Implies(p0 == lit(p), eq_z3(mv, mn)) for p, mn in g.prefixes])
            ctx.prove("post:minor", want, "minor_version is the one named by the prefix")

    def check_raise(self, ctx, exc):
        g = self.grammar
        vec = ctx.data["vec"]
        eng = ctx.engine
        want = eng.module("exceptions").globals[self.malformed]
        if exc.exc_cls is not want:
            ctx.fail("raises:%s" % exc.exc_cls.__name__,
                     "%s escapes parse_vector (only %s is allowed)" % (exc.exc_cls.__name__, self.malformed))
            return
        ctx.prove("raises:%s=>not-syn" % self.malformed, z3.Not(g.syn(vec.z)),
                  "a vector rejected as malformed is not in the grammar")


@register
class ParseVector2(ParseVector):
    module, qualname, cls = "cvss2", "CVSS2.parse_vector", "CVSS2"
    grammar = G2
    malformed = "CVSS2MalformedError"
    modifies = frozenset(["metrics"])


@register
class ParseVector3(ParseVector):
    module, qualname, cls = "cvss3", "CVSS3.parse_vector", "CVSS3"
    grammar = G3
    malformed = "CVSS3MalformedError"


@register
class ParseVector4(ParseVector):
    module, qualname, cls = "cvss4", "CVSS4.parse_vector", "CVSS4"
    grammar = G4
    malformed = "CVSS4MalformedError"
    modifies = frozenset(["metrics"])

    def check_return(self, ctx, value):
        g = self.grammar
        saved = g.prefixes
        try:
            g.prefixes = []  # no minor version to check
            ParseVector.check_return(self, ctx, value)
        finally:
            g.prefixes = saved
