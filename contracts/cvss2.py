"""
Contracts on cvss/cvss2.py.

Abstract view of a CVSS2 object: O = the metric map as written (absent optional = ND).
WF2: dom(O) within the 14 metrics, legal values, mandatory present; base_score ==
Base2(O); temporal_score / environmental_score == Temporal2(O) / Env2(O), None exactly when the
whole group is absent or ND.
"""
from __future__ import annotations

from fractions import Fraction as F

import z3

from pyvc.contract import Contract, register
from pyvc.sym import SObj, SMap, lit, mk_str, leaves_of, fresh_str
from spec import v2

from .common import build_map, di_matches, eff_fv, float_matches, frac_to_di, lift, values_equal


class V2(object):
    def __init__(self, ctx, prefix="o", omap=None):
        self.ctx = ctx
        self.o = build_map(ctx, prefix, v2.VALUES, v2.BASE) if omap is None else omap(ctx, v2.VALUES)
        e = {}
        for m in v2.BASE:
            e[m] = eff_fv(self.o, m, v2.VALUES[m])
        for m in v2.TEMPORAL + v2.ENVIRONMENTAL:
            e[m] = eff_fv(self.o, m, v2.VALUES[m], "ND")
        self.e = e
        self._spec = {}

    def spec(self, name):
        if name in self._spec:
            return self._spec[name]
        e = self.e
        if name == "impact":
            r = lift(v2.impact, e["C"], e["I"], e["A"])
        elif name == "adj_impact":
            r = lift(v2.adjusted_impact, e["C"], e["I"], e["A"], e["CR"], e["IR"], e["AR"])
        elif name == "expl":
            r = lift(v2.exploitability, e["AV"], e["AC"], e["Au"])
        elif name == "base_eq":
            r = lift(v2.base_equation, self.spec("impact"), self.spec("expl"))
        elif name == "adj_base_eq":
            r = lift(v2.base_equation, self.spec("adj_impact"), self.spec("expl"))
        elif name == "base":
            r = lift(v2.nonneg, self.spec("base_eq"))
        elif name == "tf":
            r = lift(v2.temporal_factor, e["E"], e["RL"], e["RC"])
        elif name == "temporal_eq":
            r = lift(v2.temporal_equation, self.spec("base"), self.spec("tf"))
        elif name == "adj_temporal_eq":
            r = lift(v2.temporal_equation, self.spec("adj_base_eq"), self.spec("tf"))
        elif name == "temporal_defined":
            r = lift(lambda a, b, c: v2.group_defined([a, b, c]), e["E"], e["RL"], e["RC"])
        elif name == "env_defined":
            r = lift(lambda *xs: v2.group_defined(xs), *[e[m] for m in v2.ENVIRONMENTAL])
        elif name == "temporal":
            r = lift(lambda d, x: v2.nonneg(x) if d else None, self.spec("temporal_defined"), self.spec("temporal_eq"))
        elif name == "env_eq":
            r = lift(v2.environmental_equation, self.spec("adj_temporal_eq"), e["CDP"], e["TD"])
        elif name == "env":
            r = lift(lambda d, x: v2.nonneg(x) if d else None, self.spec("env_defined"), self.spec("env_eq"))
        else:
            raise KeyError(name)
        self._spec[name] = r
        return r

    def weight(self, abbr):
        table = {"C": "CIA", "I": "CIA", "A": "CIA", "CR": "REQ", "IR": "REQ", "AR": "REQ"}.get(abbr, abbr)
        return lift(lambda v: v2.W[table][v], self.e[abbr])

    def obj(self, phase, fields=()):
        ctx = self.ctx
        cls = ctx.engine.module("cvss2").globals["CVSS2"]
        o = SObj(cls)
        f = o.fields
        f["vector"] = fresh_str("vector")
        f["metrics"] = SMap(self.o.dom, self.o.val, None, "metrics")
        f["metrics"].info = self.o.info
        for n in ("base_score", "temporal_score", "environmental_score"):
            f[n] = None
        want = set(fields)
        if phase == "done":
            want |= {"base_score", "temporal_score", "environmental_score"}
        for n in want:
            f[n] = self.field_value(n)
        ctx.data["self"] = o
        ctx.data["v2"] = self
        ctx.data["frozen_maps"] = [("self.metrics", f["metrics"])]
        o.v2view = self
        o.written = set()
        o.assumed_state = True
        o.assumed_fields = set(o.fields)
        from pyvc import extra

        def parsed():
            m = SMap(self.o.dom, self.o.val, None, "metrics")
            m.info = self.o.info
            return {"metrics": m}

        extra.attach(ctx, o, "v2view", self, known=set(o.fields),
                     stop_after=None if phase == "done" else "check_mandatory",
                     parsed_fields=parsed, accessors=ACCESSORS2, closure=(phase == "done"))
        return o

    def field_value(self, n):
        from .cvss3 import score_repr

        sname = {"base_score": "base", "temporal_score": "temporal", "environmental_score": "env"}[n]
        return score_repr(self.ctx, self.spec(sname), n)


def view_of(o):
    return o.v2view


_TF = (True, False)
ACCESSORS2 = (
    ("scores", [((), {})]), ("severities", [((), {})]),
    ("clean_vector", [((), {})]),
    ("rh_vector", [((), {})]), ("temporal_vector", [((), {})]), ("environmental_vector", [((), {})]),
    ("as_json", [((), {"sort": a, "minimal": b}) for a in _TF for b in _TF]),
    ("__hash__", [((), {})]), ("__eq__", []),
    ("get_value_description", []),
)


class V2Contract(Contract):
    module = "cvss2"
    phase = "parsed"
    pre_fields = ()
    modifies = frozenset()

    def setup(self, ctx):
        v = V2(ctx)
        o = v.obj(self.phase, self.pre_fields)
        return [o] + self.extra_args(ctx), {}

    def extra_args(self, ctx):
        return []


class Returns(V2Contract):
    """functions that return the value of a specification function"""

    spec_name = None
    scale = None

    def spec_for(self, case):
        return self.spec_name

    def check_return(self, ctx, value):
        v = ctx.data["v2"]
        s = self.spec_for(ctx.case)
        ctx.prove("post:result==%s" % s, di_matches(value, v.spec(s), max_scale=self.scale),
                  "the result equals the specification's %s" % s)

    def effect(self, eng, st, args, kwargs):
        v = view_of(args[0])
        case = self.case_of_call(args, kwargs)
        if case is None:
            return NotImplemented
        for n in self.pre_fields:
            sname = {"base_score": "base"}[n]
            st.prove("%s/pre@call:%s" % (self.oid, n), di_matches(args[0].fields.get(n), v.spec(sname), max_scale=1, strict_zero=True))
        return lift(frac_to_di(self.scale, "?"), v.spec(self.spec_for(case)))

    def case_of_call(self, args, kwargs):
        return {}


@register
class ImpactEquation(Returns):
    qualname = "CVSS2.impact_equation"
    spec_name = "impact"
    scale = 11


@register
class AdjustedImpactEquation(Returns):
    qualname = "CVSS2.adjusted_impact_equation"
    spec_name = "adj_impact"
    scale = 20


class AdjFlag(Returns):
    cases = ({"adjusted_impact": False}, {"adjusted_impact": True})
    names = (None, None)

    def extra_args(self, ctx):
        return [ctx.case["adjusted_impact"]]

    def spec_for(self, case):
        return self.names[1] if case["adjusted_impact"] else self.names[0]

    def case_of_call(self, args, kwargs):
        a = args[1] if len(args) > 1 else kwargs.get("adjusted_impact", False)
        if not isinstance(a, bool):
            return None
        return {"adjusted_impact": a}


@register
class BaseScoreEquation(AdjFlag):
    qualname = "CVSS2.base_score_equation"
    names = ("base_eq", "adj_base_eq")
    scale = 1


@register
class TemporalScoreEquation(AdjFlag):
    qualname = "CVSS2.temporal_score_equation"
    names = ("temporal_eq", "adj_temporal_eq")
    scale = 1
    pre_fields = ("base_score",)


@register
class GetValue2(V2Contract):
    qualname = "CVSS2.get_value"
    cases = tuple({"abbreviation": m} for m in v2.ORDER)

    def extra_args(self, ctx):
        return [ctx.case["abbreviation"]]

    def check_return(self, ctx, value):
        v = ctx.data["v2"]
        ctx.prove("post:weight", di_matches(value, v.weight(ctx.case["abbreviation"]), max_scale=3),
                  "get_value(%s) is the specification weight" % ctx.case["abbreviation"])

    def effect(self, eng, st, args, kwargs):
        abbr = args[1] if len(args) > 1 else kwargs.get("abbreviation")
        if not isinstance(abbr, str) or abbr not in v2.VALUES:
            return NotImplemented
        return lift(frac_to_di(3), view_of(args[0]).weight(abbr))


class FieldPost(V2Contract):
    field = None
    sname = None

    def check_return(self, ctx, value):
        o, v = ctx.data["self"], ctx.data["v2"]
        ctx.prove("post:%s==%s" % (self.field, self.sname),
                  di_matches(o.fields.get(self.field), v.spec(self.sname), max_scale=1, strict_zero=True),
                  "self.%s equals the specification's %s (None exactly when undefined)" % (self.field, self.sname))

    def effect(self, eng, st, args, kwargs):
        o = args[0]
        v = view_of(o)
        for n in self.pre_fields:
            st.prove("%s/pre@call:%s" % (self.oid, n), di_matches(o.fields.get(n), v.spec("base"), max_scale=1, strict_zero=True))
        eng.set_attr(o, self.field, v.field_value(self.field), st)
        return None


@register
class ComputeBase2(FieldPost):
    qualname = "CVSS2.compute_base_score"
    field, sname = "base_score", "base"
    modifies = frozenset(["base_score"])


@register
class ComputeTemporal2(FieldPost):
    qualname = "CVSS2.compute_temporal_score"
    field, sname = "temporal_score", "temporal"
    modifies = frozenset(["temporal_score"])
    pre_fields = ("base_score",)


@register
class ComputeEnv2(FieldPost):
    qualname = "CVSS2.compute_environmental_score"
    field, sname = "environmental_score", "env"
    modifies = frozenset(["environmental_score"])
    pre_fields = ("base_score",)


@register
class Scores2(V2Contract):
    qualname = "CVSS2.scores"
    phase = "done"

    def check_return(self, ctx, value):
        v = ctx.data["v2"]
        if not (isinstance(value, tuple) and len(value) == 3):
            ctx.fail("post:shape", "scores() does not return a 3-tuple")
            return
        for x, n in zip(value, ("base", "temporal", "env")):
            ctx.prove("post:%s" % n, float_matches(x, v.spec(n)),
                      "scores() reports float(%s score), None exactly when the score is undefined" % n)

    def effect(self, eng, st, args, kwargs):
        v = view_of(args[0])
        return tuple(lift(lambda x: None if x is None else x.numerator / x.denominator, v.spec(n)) for n in ("base", "temporal", "env"))


# ============================================================================================
# accessors (object fully constructed: WF2)

import re as _re  # noqa: E402

from pyvc import strings as S  # noqa: E402
from pyvc.sym import SBool, SInt, SStr, FV, eq_z3, fv_apply  # noqa: E402
from spec import names as N  # noqa: E402
from spec import jsonschema as JS  # noqa: E402
from .common import canon_string, strings_equal, field_fv, defined_guard, json_doc_obligations  # noqa: E402


def canon2(v):
    return canon_string("", v.o, v2.ORDER, "ND")


def sev2(v, n):
    return lift(v2.severity, v.spec(n))


def score_str2(v, n):
    return lift(lambda x: "%.1f" % float(x), v.spec(n))


class Accessor2(V2Contract):
    phase = "done"
    modifies = frozenset()


@register
class Severities2(Accessor2):
    qualname = "CVSS2.severities"

    def check_return(self, ctx, value):
        v = ctx.data["v2"]
        if not (isinstance(value, tuple) and len(value) == 3):
            ctx.fail("post:shape", "severities() does not return a 3-tuple")
            return
        for x, n in zip(value, ("base", "temporal", "env")):
            ctx.prove("post:%s" % n, eq_z3(x, sev2(v, n)),
                      "the %s rating follows the NVD scale ('None' for an undefined score)" % n)

    def effect(self, eng, st, args, kwargs):
        v = view_of(args[0])
        return tuple(sev2(v, n) for n in ("base", "temporal", "env"))


@register
class CleanVector2(Accessor2):
    qualname = "CVSS2.clean_vector"

    def check_return(self, ctx, value):
        v = ctx.data["v2"]
        if not isinstance(value, (str, SStr, FV)):
            ctx.fail("post:type", "clean_vector() does not return a string")
            return
        ctx.prove("post:canonical", strings_equal(value, canon2(v)),
                  "every defined metric once, in specification order, joined by '/'")

    def effect(self, eng, st, args, kwargs):
        if len(args) > 1 or kwargs:
            return NotImplemented
        return canon2(view_of(args[0]))


@register
class RhVector2(Accessor2):
    qualname = "CVSS2.rh_vector"

    def check_return(self, ctx, value):
        v = ctx.data["v2"]
        spec = S.concat(S.concat(score_str2(v, "base"), "/"), canon2(v))
        ctx.prove("post:rh", strings_equal(value, spec), "base score with one decimal + '/' + cleaned vector")

    def effect(self, eng, st, args, kwargs):
        v = view_of(args[0])
        return S.concat(S.concat(score_str2(v, "base"), "/"), canon2(v))


def subvector2(v, metrics):
    return S.join("/", [field_fv(m, v.e[m]) for m in metrics])


@register
class TemporalVector2(Accessor2):
    qualname = "CVSS2.temporal_vector"

    def check_return(self, ctx, value):
        ctx.prove("post:temporal_vector", strings_equal(value, subvector2(ctx.data["v2"], v2.TEMPORAL)),
                  "E, RL, RC in order with the given value or ND")

    def effect(self, eng, st, args, kwargs):
        return subvector2(view_of(args[0]), v2.TEMPORAL)


@register
class EnvironmentalVector2(Accessor2):
    qualname = "CVSS2.environmental_vector"

    def check_return(self, ctx, value):
        ctx.prove("post:environmental_vector",
                  strings_equal(value, subvector2(ctx.data["v2"], v2.ENVIRONMENTAL)),
                  "CDP, TD, CR, IR, AR in order with the given value or ND")

    def effect(self, eng, st, args, kwargs):
        return subvector2(view_of(args[0]), v2.ENVIRONMENTAL)


def json_name2(text):
    return text.upper().replace("-", "_").replace(" ", "_")


@register
class GetValueDescription2(Accessor2):
    qualname = "CVSS2.get_value_description"
    cases = tuple({"abbreviation": m} for m in v2.ORDER)

    def extra_args(self, ctx):
        return [ctx.case["abbreviation"]]

    def check_return(self, ctx, value):
        v = ctx.data["v2"]
        m = ctx.case["abbreviation"]
        want = lift(lambda x: N.V2_VALUES[m][x], v.e[m])
        got = json_name2(value) if isinstance(value, str) else fv_apply(json_name2, value) if isinstance(value, FV) else None
        if got is None:
            ctx.fail("post:type", "get_value_description does not return a finite string")
            return
        ctx.prove("post:names-effective-value", eq_z3(got, want),
                  "the description (upper-snake-cased) names the effective value of %s" % m)


@register
class Hash2(Accessor2):
    qualname = "CVSS2.__hash__"

    def check_return(self, ctx, value):
        v = ctx.data["v2"]
        want = S.pyhash(canon2(v))
        ok = isinstance(value, SInt)
        ctx.prove("post:hash-of-canonical", (value.z == want.z) if ok else False,
                  "hash is a function of the canonical vector only")
        evs = [e for e in ctx.st.events if e[0] == "hash"]
        ctx.prove("post:single-hash-source", len(evs) == 1, "exactly one string is hashed")


@register
class Eq2(Accessor2):
    qualname = "CVSS2.__eq__"
    cases = ({"other": "CVSS2"}, {"other": "str"}, {"other": "None"}, {"other": "CVSS3"})

    def setup(self, ctx):
        args, kw = Accessor2.setup(self, ctx)
        kind = ctx.case["other"]
        if kind == "CVSS2":
            first = ctx.data["v2"]
            frozen = ctx.data["frozen_maps"]
            w = V2(ctx, "p")
            other = w.obj("done")
            ctx.data["self"] = args[0]
            ctx.data["v2"] = first
            ctx.data["other_view"] = w
            ctx.data["foreign"] = [other]
            ctx.data["frozen_maps"] = frozen + [("other.metrics", other.fields["metrics"])]
        elif kind == "str":
            other = fresh_str("other")
        elif kind == "CVSS3":
            other = SObj(ctx.engine.module("cvss3").globals["CVSS3"])
            ctx.data["foreign"] = [other]
        else:
            other = None
        return args + [other], kw

    def check_return(self, ctx, value):
        v = ctx.data["v2"]
        if ctx.case["other"] != "CVSS2":
            ctx.prove("post:other-type", value is False, "never equal to a value of another type")
            return
        w = ctx.data["other_view"]
        conj = []
        for k in v2.ORDER:
            ga, gb = defined_guard(v.o, k, "ND"), defined_guard(w.o, k, "ND")
            conj.append(ga == gb)
            conj.append(z3.Implies(ga, eq_z3(v.o.info[k][2], w.o.info[k][2])))
        want = z3.And(*conj)
        got = value.z if isinstance(value, SBool) else z3.BoolVal(value) if isinstance(value, bool) else None
        if got is None:
            ctx.fail("post:type", "__eq__ does not return a bool")
            return
        ctx.prove("post:eq-iff-same-defined-metrics", got == want,
                  "a == b exactly when the same metrics are defined with the same values")


def json_spec2(v, o, minimal):
    T = z3.BoolVal(True)
    items = [("version", T, "2.0"), ("vectorString", T, o.fields["vector"]), ("baseScore", T, v.spec("base"))]
    for m in v2.BASE:
        items.append((N.V2_KEYS[m], T, lift(lambda x, m=m: N.V2_VALUES[m][x], v.e[m])))
    for grp, metrics, sc in (("temporal", v2.TEMPORAL, "temporal"), ("environmental", v2.ENVIRONMENTAL, "env")):
        if minimal:
            low = z3.Or(*[defined_guard(v.o, m, "ND") for m in metrics])
            pres = ("atleast", low, grp)
        else:
            pres = T
        for m in metrics:
            items.append((N.V2_KEYS[m], pres, lift(lambda x, m=m: N.V2_VALUES[m][x], v.e[m])))
        # a score field equals the defined score; for an undefined score the field is only typed
        # by the schema (C10), its value is not constrained by C11
        items.append((grp + "Score", pres, ("if-defined", v.spec(sc))))
    return items


@register
class AsJson2(Accessor2):
    qualname = "CVSS2.as_json"
    cases = tuple({"sort": s, "minimal": m} for s in (False, True) for m in (False, True)) + ({"sort": "default", "minimal": "default"},)

    def setup(self, ctx):
        args, kw = Accessor2.setup(self, ctx)
        if ctx.case["sort"] == "default":
            return args, kw
        return args, {"sort": ctx.case["sort"], "minimal": ctx.case["minimal"]}

    def check_return(self, ctx, value):
        from .cvss3 import schema_obligations

        v, o = ctx.data["v2"], ctx.data["self"]
        sort = False if ctx.case["sort"] == "default" else ctx.case["sort"]
        minimal = False if ctx.case["minimal"] == "default" else ctx.case["minimal"]
        json_doc_obligations(ctx, value, json_spec2(v, o, minimal), sort, None)
        if isinstance(value, dict):
            schema_obligations(ctx, value, "2.0")
            ctx.prove("post:fresh-dict", not ctx.engine.is_global_obj(value) and value is not o.fields.get("metrics"),
                      "the returned dict is freshly allocated")
