"""
Contracts on cvss/cvss4.py.

Abstract view of a CVSS4 object: O = the original metric map.  WF4: dom(O) within the 32
metrics, legal values, the 11 base metrics present, metrics == Fill4(O) (absent / X modified
metric = base value, other absent optional metrics = X), base_score == float(Score4(Eff4(O))),
severity == the official rating of that score.
"""
from __future__ import annotations

from fractions import Fraction as F

import z3

from pyvc import fd
from pyvc import strings as S
from pyvc.contract import Contract, register
from pyvc.sym import FV, SBool, SInt, SMap, SObj, SStr, eq_z3, fresh_str, fv_apply, lit, mk_str
from spec import names as N
from spec import v3 as S3
from spec import v4

from .common import (
    build_map,
    canon_string,
    defined_guard,
    eff_fv,
    field_fv,
    float_matches,
    json_doc_obligations,
    lift,
    map_equal,
    strings_equal,
)

OPTIONAL_X = ["S", "AU", "R", "V", "RE", "U", "CR", "IR", "AR", "E"]


def fill_map4(o):
    dom, val = o.dom, o.val
    for m in v4.MODIFIED:
        mz, bz = lit(m), lit(m[1:])
        absent = z3.Or(z3.Not(z3.Select(dom, mz)), z3.Select(val, mz) == lit("X"))
        val = z3.Store(val, mz, z3.If(absent, z3.Select(val, bz), z3.Select(val, mz)))
        dom = z3.Store(dom, mz, z3.BoolVal(True))
    for m in OPTIONAL_X:
        mz = lit(m)
        val = z3.Store(val, mz, z3.If(z3.Select(dom, mz), z3.Select(val, mz), lit("X")))
        dom = z3.Store(dom, mz, z3.BoolVal(True))
    return dom, val


def _class_distance(cls, mv_digits, *vals):
    """distance of one class given the class's own macrovector digit(s) and metric values"""
    e = dict(zip(v4.EQ_METRICS[cls], vals))
    mv = ["0"] * 6
    if cls == "eq1":
        mv[0] = str(mv_digits[0])
    elif cls == "eq2":
        mv[1] = str(mv_digits[0])
    elif cls == "eq3":
        mv[2], mv[5] = str(mv_digits[0]), str(mv_digits[1])
    elif cls == "eq4":
        mv[3] = str(mv_digits[0])
    mvs = "".join(mv)
    try:
        return v4.class_distance(e, mvs, cls)
    except KeyError:
        return None


_MV_CACHE = {}


def _mv_info(mv):
    r = _MV_CACHE.get(mv)
    if r is None:
        if mv not in v4.LOOKUP:
            r = None
        else:
            value = v4.LOOKUP[mv]
            lows = v4.lower_scores(mv)
            n = sum(1 for c in ("eq1", "eq2", "eq3", "eq4", "eq5") if lows[c] is not None)
            coef = []
            for cls in ("eq1", "eq2", "eq3", "eq4"):
                if lows[cls] is None:
                    coef.append(None)
                else:
                    coef.append((value - lows[cls]) / (v4.depth(mv, cls) * F("0.1")))
            r = (value, n, coef)
        _MV_CACHE[mv] = r or False
    return r or None


def _final(mv, d1, d2, d3, d4, noimp):
    """Score4 as a function of the macrovector, the four class distances and the no-impact flag;
    combinations that no vector realises (a distance that does not belong to the macrovector)
    are mapped to 0 -- they are never selected"""
    from spec.common import halfup1

    if noimp:
        return F(0)
    info = _mv_info(mv)
    if info is None or None in (d1, d2, d3, d4):
        return F(0)
    value, n, coef = info
    total = F(0)
    for c, d in zip(coef, (d1, d2, d3, d4)):
        if c is not None:
            total += c * d
    mean = total / n if n else F(0)
    return halfup1(max(F(0), min(F(10), value - mean)))


class V4(object):
    def __init__(self, ctx, prefix="o", omap=None):
        self.ctx = ctx
        self.o = build_map(ctx, prefix, v4.VALUES, v4.BASE) if omap is None else omap(ctx, v4.VALUES)
        raw = {}
        for m in v4.ORDER:
            raw[m] = eff_fv(self.o, m, v4.VALUES[m]) if m in v4.BASE else eff_fv(self.o, m, v4.VALUES[m], "X")
        self.raw = raw
        e = {}
        for m in v4.SCORING:
            if m in ("E", "CR", "IR", "AR"):
                e[m] = lift(lambda b, m=m: v4.effective(m, b, None), raw[m], memo=("v4e", m))
            else:
                e[m] = lift(lambda b, mo, m=m: v4.effective(m, b, mo), raw[m], raw["M" + m], memo=("v4e", m))
        self.e = e
        # filled (as stored in self.metrics): modified = effective, optional absent = X
        filled = dict(raw)
        for m in v4.MODIFIED:
            filled[m] = e[m[1:]]
        self.filled = filled
        self._spec = {}

    def spec(self, name):
        if name in self._spec:
            return self._spec[name]
        e = self.e
        if name == "eq1":
            r = lift(v4.eq1, e["AV"], e["PR"], e["UI"], memo=("v4", name))
        elif name == "eq2":
            r = lift(v4.eq2, e["AC"], e["AT"], memo=("v4", name))
        elif name == "eq3":
            r = lift(v4.eq3, e["VC"], e["VI"], e["VA"], memo=("v4", name))
        elif name == "eq4":
            r = lift(v4.eq4, e["SC"], e["SI"], e["SA"], memo=("v4", name))
        elif name == "eq5":
            r = lift(v4.eq5, e["E"], memo=("v4", name))
        elif name == "eq6":
            r = lift(v4.eq6, e["VC"], e["VI"], e["VA"], e["CR"], e["IR"], e["AR"], memo=("v4", name))
        elif name == "mv":
            r = lift(lambda *d: "%d%d%d%d%d%d" % d, *[self.spec("eq%d" % k) for k in range(1, 7)], memo=("v4", name))
        elif name == "d1":
            r = lift(lambda a, b, c: _class_distance("eq1", (v4.eq1(a, b, c),), a, b, c),
                     e["AV"], e["PR"], e["UI"], memo=("v4", name))
        elif name == "d2":
            r = lift(lambda a, b: _class_distance("eq2", (v4.eq2(a, b),), a, b), e["AC"], e["AT"], memo=("v4", name))
        elif name == "d3":
            r = lift(lambda a, b, c, x, y, z: _class_distance("eq3", (v4.eq3(a, b, c), v4.eq6(a, b, c, x, y, z)), a, b, c, x, y, z),
                     e["VC"], e["VI"], e["VA"], e["CR"], e["IR"], e["AR"], memo=("v4", name))
        elif name == "d4":
            r = lift(lambda a, b, c: _class_distance("eq4", (v4.eq4(a, b, c),), a, b, c),
                     e["SC"], e["SI"], e["SA"], memo=("v4", name))
        elif name == "noimp":
            r = lift(lambda *xs: all(x == "N" for x in xs), *[e[m] for m in ("VC", "VI", "VA", "SC", "SI", "SA")], memo=("v4", name))
        elif name == "score":
            r = lift(_final, self.spec("mv"), self.spec("d1"), self.spec("d2"), self.spec("d3"), self.spec("d4"),
                     self.spec("noimp"), memo=("v4", name))
        elif name == "score_float":
            r = lift(lambda x: None if x is None else x.numerator / x.denominator, self.spec("score"), memo=("v4", name))
        elif name == "severity":
            r = lift(lambda x: None if x is None else S3.severity(x), self.spec("score"), memo=("v4", name))
        else:
            raise KeyError(name)
        self._spec[name] = r
        return r

    def obj(self, phase):
        """'parsed' (after parse_vector + check_mandatory), 'filled', 'scored', 'done'"""
        ctx = self.ctx
        cls = ctx.engine.module("cvss4").globals["CVSS4"]
        o = SObj(cls)
        f = o.fields
        f["vector"] = fresh_str("vector")
        f["missing_metrics"] = []
        f["base_score"] = None
        f["severity"] = None
        if phase == "parsed":
            m = SMap(self.o.dom, self.o.val, None, "metrics")
            m.info = self.o.info
            f["metrics"] = m
        else:
            fd_, fv_ = fill_map4(self.o)
            f["metrics"] = SMap(fd_, fv_, None, "metrics")
            om = SMap(self.o.dom, self.o.val, None, "original_metrics")
            om.info = self.o.info
            f["original_metrics"] = om
        if phase in ("scored", "done"):
            f["base_score"] = self.spec("score_float")
        if phase == "done":
            f["severity"] = self.spec("severity")
        ctx.data["self"] = o
        ctx.data["v4"] = self
        ctx.data["frozen_maps"] = [("self.metrics", f["metrics"])] + (
            [("self.original_metrics", f["original_metrics"])] if "original_metrics" in f else [])
        o.v4view = self
        o.written = set()
        o.assumed_state = True
        o.assumed_fields = set(o.fields)
        from pyvc import extra

        def parsed():
            m = SMap(self.o.dom, self.o.val, None, "metrics")
            m.info = self.o.info
            return {"metrics": m}

        extra.attach(ctx, o, "v4view", self, known=set(o.fields) | {"original_metrics"},
                     stop_after={"parsed": "check_mandatory", "filled": "add_missing_optional",
                                 "scored": "compute_base_score", "done": None}[phase],
                     parsed_fields=parsed, accessors=ACCESSORS4, closure=(phase == "done"))
        return o


def view_of(o):
    return o.v4view


_TF = (True, False)
ACCESSORS4 = (
    ("scores", [((), {})]), ("severities", [((), {})]),
    ("clean_vector", [((), {"output_prefix": b}) for b in _TF]),
    ("rh_vector", [((), {})]),
    ("as_json", [((), {"sort": a, "minimal": b}) for a in _TF for b in _TF]),
    ("__hash__", [((), {})]), ("__eq__", []),
    ("get_value_description", []),
)


class V4Contract(Contract):
    module = "cvss4"
    phase = "filled"
    modifies = frozenset()

    def setup(self, ctx):
        v = V4(ctx)
        o = v.obj(self.phase)
        return [o] + self.extra_args(ctx), {}

    def extra_args(self, ctx):
        return []


M_ARGS = v4.SCORING + ["MSI", "MSA"]


@register
class M4(V4Contract):
    qualname = "CVSS4.m"
    cases = tuple({"metric": m} for m in M_ARGS)

    def extra_args(self, ctx):
        return [ctx.case["metric"]]

    @staticmethod
    def want(v, metric):
        if metric in ("MSI", "MSA"):
            return v.e[metric[1:]]
        return v.e[metric]

    def check_return(self, ctx, value):
        m = ctx.case["metric"]
        ctx.prove("post:effective", eq_z3(value, self.want(ctx.data["v4"], m)),
                  "m(%s) is the effective value (modified overrides base; E:X=A; CR/IR/AR:X=H)" % m)

    def effect(self, eng, st, args, kwargs):
        metric = args[1] if len(args) > 1 else kwargs.get("metric")
        if not isinstance(metric, str) or metric not in M_ARGS:
            return NotImplemented
        return self.want(view_of(args[0]), metric)


@register
class MacroVector4(V4Contract):
    qualname = "CVSS4.macroVector"

    def check_return(self, ctx, value):
        ctx.prove("post:macrovector", eq_z3(value, ctx.data["v4"].spec("mv")),
                  "the six equivalence-class digits of the effective assignment")

    def effect(self, eng, st, args, kwargs):
        v = view_of(args[0])
        # callers case-split on the macrovector: one path per feasible value
        digits = [eng.concretize(v.spec("eq%d" % k), st) for k in range(1, 7)]
        return "%d%d%d%d%d%d" % tuple(digits)


@register
class ExtractValueMetric4(V4Contract):
    """ground cases: every (metric, highest-severity vector) pair of the specification tables"""

    qualname = "CVSS4.extract_value_metric"

    @staticmethod
    def _cases():
        out = []
        seen = set()
        mc = v4.MAX_COMPOSED
        parts = {}
        for cls in ("eq1", "eq2", "eq4", "eq5"):
            for k, lst in mc[cls].items():
                parts.setdefault(cls, []).extend(lst)
        for a, d in mc["eq3"].items():
            for b, lst in d.items():
                parts.setdefault("eq3", []).extend(lst)
        # composed vectors as compute_base_score builds them: one part per class, concatenated
        import itertools

        for combo in itertools.product(parts["eq1"][:2], parts["eq2"][:2], parts["eq3"], parts["eq4"][:2], parts["eq5"][:2]):
            s = "".join(combo)
            for m in parse_all(s):
                key = (m, s)
                if key not in seen:
                    seen.add(key)
                    out.append({"metric": m, "string": s})
        return tuple(out[:400])

    cases = ()

    def extra_args(self, ctx):
        return [ctx.case["metric"], ctx.case["string"]]

    def check_return(self, ctx, value):
        want = parse_all(ctx.case["string"])[ctx.case["metric"]]
        ctx.prove("post:value-of-metric", value == want if isinstance(value, str) else False,
                  "extract_value_metric returns the value of the metric's own field")


def parse_all(s):
    return dict(f.split(":") for f in s.strip("/").split("/"))


ExtractValueMetric4.cases = ExtractValueMetric4._cases()


@register
class ComputeBaseScore4(V4Contract):
    qualname = "CVSS4.compute_base_score"
    modifies = frozenset(["base_score"])
    max_paths = 20000
    # case split (for parallelism only): the EQ1, EQ3 and EQ4 digits of the macrovector
    cases = tuple({"eq1": a, "eq2": d, "eq3": b, "eq4": c} for a in (0, 1, 2) for d in (0, 1) for b in (0, 1, 2) for c in (0, 1, 2))

    def setup(self, ctx):
        args, kw = V4Contract.setup(self, ctx)
        v = ctx.data["v4"]
        for k in ("eq1", "eq2", "eq3", "eq4"):
            ctx.assume(eq_z3(v.spec(k), ctx.case[k]))
        return args, kw

    def check_return(self, ctx, value):
        o, v = ctx.data["self"], ctx.data["v4"]
        ctx.prove("post:base_score==Score4", float_matches(o.fields.get("base_score"), v.spec("score")),
                  "base_score is float(the specification's score of the effective assignment)")

    def effect(self, eng, st, args, kwargs):
        o = args[0]
        eng.set_attr(o, "base_score", view_of(o).spec("score_float"), st)
        return None


@register
class ComputeSeverity4(V4Contract):
    qualname = "CVSS4.compute_severity"
    phase = "scored"
    modifies = frozenset(["severity"])

    def check_return(self, ctx, value):
        o, v = ctx.data["self"], ctx.data["v4"]
        ctx.prove("post:severity", eq_z3(o.fields.get("severity"), v.spec("severity")),
                  "severity is the official rating of the score")

    def effect(self, eng, st, args, kwargs):
        o = args[0]
        st.prove("%s/pre@call:base_score" % self.oid, float_matches(o.fields.get("base_score"), view_of(o).spec("score")))
        eng.set_attr(o, "severity", view_of(o).spec("severity"), st)
        return None


@register
class AddMissingOptional4(V4Contract):
    qualname = "CVSS4.add_missing_optional"
    phase = "parsed"
    modifies = frozenset(["original_metrics", "metrics"])

    def setup(self, ctx):
        args, kw = V4Contract.setup(self, ctx)
        ctx.data["frozen_maps"] = []
        return args, kw

    def check_return(self, ctx, value):
        o, v = ctx.data["self"], ctx.data["v4"]
        om, m = o.fields.get("original_metrics"), o.fields.get("metrics")
        if not (isinstance(om, SMap) and isinstance(m, SMap)):
            ctx.fail("post:maps", "original_metrics / metrics are not metric maps after the call", status="unknown")
            return
        ctx.prove("post:original==O", map_equal(om.dom, om.val, v.o.dom, v.o.val, v4.ORDER), "original_metrics is a copy of the parsed map")
        fd_, fv_ = fill_map4(v.o)
        ctx.prove("post:metrics==Fill(O)", map_equal(m.dom, m.val, fd_, fv_, v4.ORDER),
                  "modified metrics inherit the base value, other absent optional metrics become X")
        ctx.prove("post:distinct-objects", om is not m, "original_metrics does not alias metrics")

    def effect(self, eng, st, args, kwargs):
        o = args[0]
        v = view_of(o)
        fd_, fv_ = fill_map4(v.o)
        om = SMap(v.o.dom, v.o.val, None, "original_metrics")
        om.info = v.o.info
        eng.set_attr(o, "original_metrics", om, st)
        eng.set_attr(o, "metrics", SMap(fd_, fv_, None, "metrics"), st)
        return None


# ============================================================================================
# accessors


def canon4(v, output_prefix=True):
    return canon_string("CVSS:4.0/" if output_prefix else "", v.o, v4.ORDER, "X")


def score_str4(v):
    return lift(lambda x: "%.1f" % float(x), v.spec("score"))


class Accessor4(V4Contract):
    phase = "done"


@register
class Scores4(Accessor4):
    qualname = "CVSS4.scores"

    def check_return(self, ctx, value):
        v = ctx.data["v4"]
        if not (isinstance(value, tuple) and len(value) == 1):
            ctx.fail("post:shape", "scores() does not return a 1-tuple")
            return
        ctx.prove("post:base", float_matches(value[0], v.spec("score")), "scores() reports float(score)")

    def effect(self, eng, st, args, kwargs):
        return (view_of(args[0]).spec("score_float"),)


@register
class Severities4(Accessor4):
    qualname = "CVSS4.severities"

    def check_return(self, ctx, value):
        v = ctx.data["v4"]
        if not (isinstance(value, tuple) and len(value) == 1):
            ctx.fail("post:shape", "severities() does not return a 1-tuple")
            return
        ctx.prove("post:base", eq_z3(value[0], v.spec("severity")), "the rating the official scale assigns to the score")

    def effect(self, eng, st, args, kwargs):
        return (view_of(args[0]).spec("severity"),)


@register
class CleanVector4(Accessor4):
    qualname = "CVSS4.clean_vector"
    cases = ({"output_prefix": True}, {"output_prefix": False}, {"output_prefix": "default"})

    def setup(self, ctx):
        args, kw = Accessor4.setup(self, ctx)
        op = ctx.case["output_prefix"]
        return (args, kw) if op == "default" else (args, {"output_prefix": op})

    def check_return(self, ctx, value):
        v = ctx.data["v4"]
        op = ctx.case["output_prefix"]
        if not isinstance(value, (str, SStr, FV)):
            ctx.fail("post:type", "clean_vector() does not return a string")
            return
        ctx.prove("post:canonical", strings_equal(value, canon4(v, True if op == "default" else op)),
                  "prefix + every defined metric once, in the specification's order (Base, Threat, Environmental, Supplemental)")

    def effect(self, eng, st, args, kwargs):
        op = args[1] if len(args) > 1 else kwargs.get("output_prefix", True)
        if not isinstance(op, bool):
            return NotImplemented
        return canon4(view_of(args[0]), op)


@register
class RhVector4(Accessor4):
    qualname = "CVSS4.rh_vector"

    def check_return(self, ctx, value):
        v = ctx.data["v4"]
        ctx.prove("post:rh", strings_equal(value, S.concat(S.concat(score_str4(v), "/"), canon4(v))),
                  "score with one decimal + '/' + cleaned vector")

    def effect(self, eng, st, args, kwargs):
        v = view_of(args[0])
        return S.concat(S.concat(score_str4(v), "/"), canon4(v))


def json_name4(text):
    if text == "POC":
        return "PROOF_OF_CONCEPT"
    return text.upper().replace("-", "_").replace(" ", "_")


@register
class GetValueDescription4(Accessor4):
    qualname = "CVSS4.get_value_description"
    cases = tuple({"abbreviation": m} for m in v4.ORDER)

    def extra_args(self, ctx):
        return [ctx.case["abbreviation"]]

    def check_return(self, ctx, value):
        v = ctx.data["v4"]
        m = ctx.case["abbreviation"]
        want = lift(lambda x: N.V4_VALUES[m][x], v.filled[m])
        got = json_name4(value) if isinstance(value, str) else fv_apply(json_name4, value) if isinstance(value, FV) else None
        if got is None:
            ctx.fail("post:type", "get_value_description does not return a finite string")
            return
        ctx.prove("post:names-effective-value", eq_z3(got, want),
                  "the description (upper-snake-cased) names the effective value of %s" % m)


@register
class Hash4(Accessor4):
    qualname = "CVSS4.__hash__"

    def check_return(self, ctx, value):
        v = ctx.data["v4"]
        want = S.pyhash(canon4(v))
        ctx.prove("post:hash-of-canonical", (value.z == want.z) if isinstance(value, SInt) else False,
                  "hash is a function of the canonical vector only")
        ctx.prove("post:single-hash-source", len([e for e in ctx.st.events if e[0] == "hash"]) == 1, "exactly one string is hashed")


@register
class Eq4(Accessor4):
    qualname = "CVSS4.__eq__"
    cases = ({"other": "CVSS4"}, {"other": "str"}, {"other": "None"}, {"other": "CVSS3"})

    def setup(self, ctx):
        args, kw = Accessor4.setup(self, ctx)
        kind = ctx.case["other"]
        if kind == "CVSS4":
            first, frozen = ctx.data["v4"], ctx.data["frozen_maps"]
            w = V4(ctx, "p")
            other = w.obj("done")
            ctx.data["self"], ctx.data["v4"], ctx.data["other_view"] = args[0], first, w
            ctx.data["foreign"] = [other]
            ctx.data["frozen_maps"] = frozen + [("other.metrics", other.fields["metrics"]),
                                                ("other.original_metrics", other.fields["original_metrics"])]
        elif kind == "str":
            other = fresh_str("other")
        elif kind == "CVSS3":
            other = SObj(ctx.engine.module("cvss3").globals["CVSS3"])
            ctx.data["foreign"] = [other]
        else:
            other = None
        return args + [other], kw

    def check_return(self, ctx, value):
        v = ctx.data["v4"]
        if ctx.case["other"] != "CVSS4":
            ctx.prove("post:other-type", value is False, "never equal to a value of another type")
            return
        w = ctx.data["other_view"]
        conj = []
        for k in v4.ORDER:
            ga, gb = defined_guard(v.o, k, "X"), defined_guard(w.o, k, "X")
            conj.append(ga == gb)
            conj.append(z3.Implies(ga, eq_z3(v.o.info[k][2], w.o.info[k][2])))
        got = value.z if isinstance(value, SBool) else z3.BoolVal(value) if isinstance(value, bool) else None
        if got is None:
            ctx.fail("post:type", "__eq__ does not return a bool")
            return
        ctx.prove("post:eq-iff-same-defined-metrics", got == z3.And(*conj),
                  "a == b exactly when the same metrics are defined with the same values")


def json_spec4(v, o):
    T = z3.BoolVal(True)
    items = [("version", T, "4.0"), ("vectorString", T, o.fields["vector"])]
    for m in v4.ORDER:
        items.append((N.V4_KEYS[m], T, lift(lambda x, m=m: N.V4_VALUES[m][x], v.filled[m])))
    items.append(("baseScore", T, v.spec("score")))
    items.append(("baseSeverity", T, ("severity-up-to-case", v.spec("severity"))))
    return items


@register
class AsJson4(Accessor4):
    qualname = "CVSS4.as_json"
    cases = tuple({"sort": s, "minimal": m} for s in (False, True) for m in (False, True)) + ({"sort": "default", "minimal": "default"},)

    def setup(self, ctx):
        args, kw = Accessor4.setup(self, ctx)
        if ctx.case["sort"] == "default":
            return args, kw
        return args, {"sort": ctx.case["sort"], "minimal": ctx.case["minimal"]}

    def check_return(self, ctx, value):
        from .cvss3 import schema_obligations

        v, o = ctx.data["v4"], ctx.data["self"]
        sort = False if ctx.case["sort"] == "default" else ctx.case["sort"]
        json_doc_obligations(ctx, value, json_spec4(v, o), sort, None)
        if isinstance(value, dict):
            schema_obligations(ctx, value, "4.0")
            # the part of the severity fragment that does not depend on letter case
            up = dict(value)
            if "baseSeverity" in up and isinstance(up["baseSeverity"], (str, FV)):
                up["baseSeverity"] = fv_apply(lambda s: s.upper() if isinstance(s, str) else s, up["baseSeverity"])
                schema_obligations(_Tag(ctx, "[severity upper-cased]"), up, "4.0", only=("allOf/0",))
            ctx.prove("post:fresh-dict", not ctx.engine.is_global_obj(value) and value is not o.fields.get("metrics")
                      and value is not o.fields.get("original_metrics"), "the returned dict is freshly allocated")


class _Tag(object):
    def __init__(self, ctx, tag):
        self.ctx, self.tag, self.st, self.engine = ctx, tag, ctx.st, ctx.engine

    def prove(self, name, goal, detail=None):
        return self.ctx.prove(name + self.tag, goal, detail)

    def fail(self, name, detail, status="refuted"):
        return self.ctx.fail(name + self.tag, detail, status)
