"""
Contract on cvss/interactive.py::ask_interactively (C16), with ghost stdin / stdout.

The answer loop (`while True`) of each metric is verified as a block with its own contract, for
one arbitrary iteration on a fresh answer line:
  * an iteration that leaves the loop appended exactly  metric + ":" + v  where v is a legal value
    of the metric whose upper-cased spelling equals the upper-cased, stripped answer
    (an empty answer standing for ND / X), and changed nothing else;
  * an iteration that stays in the loop changed nothing (the question is simply repeated) and
    its answer matched no legal value.
The caller then sees the loop as "one field  metric:acc  appended", acc ranging over the legal
values.  Selectability (every legal value can be entered) is a family of ground obligations:
the real loop body is executed concretely on the answer v, V.lower() and "  v  ".
"""
from __future__ import annotations

import z3

from pyvc import fd
from pyvc import strings as S
from pyvc.contract import Contract, register
from pyvc.interp import BreakSig, ContinueSig, GList, PathCut, PyRaise, Unsupported
from pyvc.sym import FV, SStr, StrSort, eq_z3, fresh_name, fresh_str, lit, mk_str
from spec import v2, v3, v4

f_line = z3.Function("stdin_line", z3.IntSort(), StrSort)
f_eof = z3.Function("stdin_eof", z3.IntSort(), z3.BoolSort())

SPEC = {
    2: (v2, "", "ND"),
    3.0: (v3, "CVSS:3.0/", "X"),
    3.1: (v3, "CVSS:3.1/", "X"),
    4.0: (v4, "CVSS:4.0/", "X"),
}


def list_items(l):
    if isinstance(l, GList):
        return [x for _, x in l.items]
    return list(l)


@register
class AskInteractively(Contract):
    module, qualname = "interactive", "ask_interactively"
    may_print = True
    cases = tuple({"version": v, "all_metrics": a, "no_colors": n}
                  for v in (2, 3.0, 3.1, 4.0) for a in (False, True) for n in (False, True))
    modifies = frozenset()

    def setup(self, ctx):
        c = ctx.case
        ctx.data["cursor"] = 0
        ctx.data["accepted"] = []  # (metric, finite choice over legal values)
        ctx.data["loops"] = 0
        return [c["version"], c["all_metrics"], c["no_colors"]], {}

    def hooks(self, ctx):
        def read_line(eng, st):
            k = ctx.data["cursor"]
            ctx.data["cursor"] = k + 1
            if st.decide(f_eof(k), "EOF on stdin?"):
                raise PyRaise(EOFError, ("EOF when reading a line",))
            return mk_str(f_line(k))

        def while_invariant(eng, st, frame, node):
            return self.answer_loop(ctx, eng, st, frame, node)

        return {"input": read_line, "while_invariant": while_invariant}

    # -------------------------------------------------------------------------------------------
    def answer_loop(self, ctx, eng, st, frame, node):
        import ast

        if not (isinstance(node.test, ast.Constant) and node.test.value is True):
            return False
        spec, prefix, nd = SPEC[ctx.case["version"]]
        metric = frame.locals.get("metric")
        vec = frame.locals.get("vector")
        if not isinstance(metric, str) or not isinstance(vec, (GList, list)) or metric not in spec.VALUES:
            raise Unsupported("answer loop in an unexpected state (metric=%r)" % (metric,))
        legal = spec.VALUES[metric]
        name = "interactive.ask_interactively/answer-loop[%s]" % metric
        ctx.data["loops"] += 1
        verify_iteration = st.decide(z3.Bool(fresh_name("verify_iteration")), "answer loop: verify one iteration vs. use its contract")
        if verify_iteration:
            before = list_items(vec)
            k0 = ctx.data["cursor"]
            stdout0 = len(st.stdout)
            watch = {k: v for k, v in frame.locals.items() if not k.startswith("__") and k not in assigned_names(node)}
            left = False
            try:
                eng.exec_block(node.body, frame, st)
            except BreakSig:
                left = True
            except ContinueSig:
                pass
            after = list_items(vec)
            answer = mk_str(S.f_strip(f_line(k0)))
            st.prove(name + "/reads-one-line", ctx.data["cursor"] == k0 + 1, "each iteration reads exactly one answer line")
            same = all(frame.locals.get(k) is v for k, v in watch.items())
            st.prove(name + "/frame", same, "an iteration changes no other local state")
            if left:
                ok = len(after) == len(before) + 1 and after[: len(before)] == before
                st.prove(name + "/appends-one-field", ok, "leaving the loop appends exactly one field")
                if ok:
                    fld = after[-1]
                    good = isinstance(fld, str) and fld.startswith(metric + ":") and fld[len(metric) + 1:] in legal
                    st.prove(name + "/field-legal", good, "the field is metric:value with a legal value of the specification")
                    if good:
                        v = fld[len(metric) + 1:]
                        norm = z3.If(answer.z == lit(""), lit(nd), answer.z) if isinstance(answer, SStr) else None
                        if norm is not None:
                            st.prove(name + "/case-insensitive-match", S.f_upper(norm) == lit(v.upper()),
                                     "the accepted value is the legal value whose upper-cased spelling equals the upper-cased stripped answer (empty = %s)" % nd)
            else:
                st.prove(name + "/repeat-unchanged", after == before, "a rejected answer changes nothing")
                if isinstance(answer, SStr):
                    norm = z3.If(answer.z == lit(""), lit(nd), answer.z)
                    st.prove(name + "/rejected-only-if-illegal", z3.And(*[S.f_upper(norm) != lit(v.upper()) for v in legal]),
                             "a question is repeated only when the answer matches no legal value")
            raise PathCut("answer loop iteration verified")
        # contract of the loop for the caller: one accepted legal value
        acc = fd.var("acc.%s" % metric, list(legal))
        ctx.data["accepted"].append((metric, acc))
        field = S.concat(metric + ":", acc)
        eng.call_method(vec, "append", [field], {}, st)
        ctx.data["cursor"] += 1
        return True

    # -------------------------------------------------------------------------------------------
    def check_return(self, ctx, value):
        c = ctx.case
        spec, prefix, nd = SPEC[c["version"]]
        asked = [m for m, _ in ctx.data["accepted"]]
        want = list(spec.ORDER) if c["all_metrics"] else list(spec.BASE)
        ctx.prove("post:asks-each-metric-once-in-order", asked == want,
                  "asked %s, specification order %s" % (asked[:6], want[:6]))
        items = [(z3.BoolVal(True), S.concat(m + ":", a)) for m, a in ctx.data["accepted"]]
        from .common import strings_equal

        expect = S.concat(prefix, S.SCat([S.JoinPiece("/", items)])) if len(items) > 1 else None
        if expect is not None and isinstance(value, (str, SStr, FV)):
            ctx.prove("post:vector==prefix+answers", strings_equal(value, expect),
                      "the result is the version prefix followed by exactly the accepted answers")
        else:
            ctx.fail("post:vector==prefix+answers", "unexpected result %r" % (type(value).__name__,))
        # the class accepts it: every field is metric:legal, each metric once, all mandatory asked
        ctx.prove("post:accepted-by-class", set(spec.BASE) <= set(asked) and len(set(asked)) == len(asked),
                  "every mandatory metric is asked, none twice; values are legal by the loop contract")

    def check_raise(self, ctx, exc):
        if exc.exc_cls is EOFError:
            ctx.prove("raises:EOFError-only-at-end-of-input", True, "end of input is the only escape")
            return
        Contract.check_raise(self, ctx, exc)


def assigned_names(node):
    import ast

    out = set()
    for n in ast.walk(node):
        if isinstance(n, ast.Name) and isinstance(n.ctx, ast.Store):
            out.add(n.id)
    return out


# ---- selectability: ground executions of the real answer loop -----------------------------------
def selectable(ctx):
    """every legal value of every metric can be entered (in its own, lower and padded spelling)"""
    from pyvc.contract import REGISTRY, lookup_function
    from pyvc.interp import Engine, PathState

    ver = ctx.case["version"]
    spec, prefix, nd = SPEC[ver]
    eng = ctx.engine
    f = lookup_function(eng, "interactive", "ask_interactively")
    if f is None:
        ctx.fail("exists", "ask_interactively no longer exists")
        return
    order = list(spec.ORDER)
    for m in order:
        for v in spec.VALUES[m]:
            spellings = [v, v.lower(), "  %s\t" % v] + ([""] if v == nd else [])
            for sp in spellings:
                answers = []
                for mm in order:
                    answers.append(sp if mm == m else (spec.VALUES[mm][0]))
                st = PathState(eng, [])
                pos = [0]

                def read_line(e, s, answers=answers, pos=pos):
                    if pos[0] >= len(answers):
                        raise PyRaise(EOFError, ())
                    pos[0] += 1
                    return answers[pos[0] - 1]

                eng.hooks = {"input": read_line}
                try:
                    r = eng.run_body(f, [ver, True, True], {}, st)
                    ok = isinstance(r, str) and ("%s:%s" % (m, v)) in r.split("/")
                except PyRaise as e:
                    ok = False
                    r = "raises %s" % e.exc_cls.__name__
                if not ok:
                    ctx.fail("selectable[%s:%s via %r]" % (m, v, sp), "answer %r to %s does not select %s (result %r)" % (sp, m, v, r))
                    return
    ctx.prove("selectable[all values of version %s]" % ver, True, "every legal value can be entered in its own, lower-case and padded spelling")
