"""
Contract on cvss/interactive.py::ask_interactively (C16), with ghost stdin / stdout.

The answer loop of each metric is verified as a block, whatever its shape, for one arbitrary
iteration on a fresh answer line:
  * an iteration that stays in the loop read one line, changed nothing that is live at the loop
    head (the question is simply repeated) and its answer matched no legal value;
  * the iteration that leaves the loop is executed and execution continues after the loop; the
    (stripped, empty = ND / X) answer is recorded as ghost state.
The postcondition states the returned string over the recorded answers: the version prefix
followed by, per metric in specification order,  metric + ":" + v  where v is the legal value whose
upper-cased spelling equals the upper-cased answer.  Selectability (every legal value can be entered) is a family of ground obligations:
the real loop body is executed concretely on the answer v, V.lower() and "  v  ".
"""
from __future__ import annotations

import z3

from pyvc import fd
from pyvc import strings as S
from pyvc.contract import Contract, register
from pyvc.interp import BreakSig, ContinueSig, GList, PathCut, PyRaise, Unsupported
from pyvc.sym import FV, SStr, StrSort, eq_z3, fresh_name, fresh_str, lit, mk_str
from spec import v2, v3, v4

f_line = z3.Function("stdin_line", z3.IntSort(), StrSort)
f_eof = z3.Function("stdin_eof", z3.IntSort(), z3.BoolSort())

SPEC = {
    2: (v2, "", "ND"),
    3.0: (v3, "CVSS:3.0/", "X"),
    3.1: (v3, "CVSS:3.1/", "X"),
    4.0: (v4, "CVSS:4.0/", "X"),
}


def list_items(l):
    if isinstance(l, GList):
        return [x for _, x in l.items]
    return list(l)


@register
class AskInteractively(Contract):
    module, qualname = "interactive", "ask_interactively"
    may_print = True
    # the documented version arguments: 2, 3.0, 3.1, 4.0 and their int / float twins (3 == 3.0, 4 == 4.0, 2.0 == 2)
    cases = tuple({"version": v, "all_metrics": a, "no_colors": n}
                  for v in (2, 3.0, 3.1, 4.0) for a in (False, True) for n in (False, True)) + tuple(
        {"version": v, "all_metrics": a, "no_colors": True} for v in (3, 4, 2.0) for a in (False, True))
    modifies = frozenset()

    def setup(self, ctx):
        c = ctx.case
        ctx.data["cursor"] = 0
        ctx.data["answers"] = []  # ghost: (metric, normalised accepted answer) per answer loop
        return [c["version"], c["all_metrics"], c["no_colors"]], {}

    def hooks(self, ctx):
        def read_line(eng, st):
            k = ctx.data["cursor"]
            ctx.data["cursor"] = k + 1
            if st.decide(f_eof(k), "EOF on stdin?"):
                raise PyRaise(EOFError, ("EOF when reading a line",))
            return mk_str(f_line(k))

        def while_invariant(eng, st, frame, node):
            return self.answer_loop(ctx, eng, st, frame, node)

        return {"input": read_line, "while_invariant": while_invariant}

    # -------------------------------------------------------------------------------------------
    def answer_loop(self, ctx, eng, st, frame, node):
        """
        Block contract of the answer loop, independent of how the loop is written (while True +
        break, while <flag>, first-match for loop, comprehension ...).  Every execution of the
        loop is some rejected iterations followed by one accepting iteration, so two cases cover it:
          R  one arbitrary iteration on a fresh line that does NOT leave the loop: it read exactly
             one line, the answer matches no legal value, and nothing that is live at the loop
             head changed (hence every iteration starts from the state this one started from);
          A  one arbitrary iteration on a fresh line that DOES leave the loop: execution simply
             continues after the loop; the answer is recorded as ghost state and the
             postcondition states the returned vector in terms of the recorded answers.
        """
        import ast

        spec, prefix, nd = SPEC[ctx.case["version"]]
        metric = frame.locals.get("metric")
        if not isinstance(metric, str) or metric not in spec.VALUES:
            raise Unsupported("answer loop in an unexpected state (metric=%r)" % (metric,))
        legal = spec.VALUES[metric]
        name = "interactive.ask_interactively/answer-loop[%s]" % metric
        always = isinstance(node.test, ast.Constant) and node.test.value is True

        def test_holds():
            return True if always else eng.truth(eng.eval(node.test, frame, st), st, "while")

        if not test_holds():
            if node.orelse:
                eng.exec_block(node.orelse, frame, st)
            return True
        assigned = assigned_names(node)
        live = live_at_head(node)
        snapshot = {k: v for k, v in frame.locals.items() if not k.startswith("__")}
        lists0 = {k: list_items(v) for k, v in snapshot.items() if isinstance(v, (list, GList))}
        k0 = ctx.data["cursor"]
        rejected_case = st.decide(z3.Bool(fresh_name("rejected_iteration")), "answer loop: a rejected vs. the accepting iteration")
        left = broke = False
        try:
            eng.exec_block(node.body, frame, st)
        except BreakSig:
            left = broke = True
        except ContinueSig:
            pass
        if not left:
            left = not test_holds()
        st.prove(name + "/reads-one-line", ctx.data["cursor"] == k0 + 1, "each iteration reads exactly one answer line")
        answer = S.f_strip(f_line(k0))
        norm = S.upper(mk_str(z3.If(answer == lit(""), lit(nd), answer))).z  # upper-cased, empty = Not Defined
        if rejected_case:
            if left:
                raise PathCut("covered by the accepting case")
            changed = []
            for k, v in snapshot.items():
                if k in assigned and k not in live:
                    continue  # re-assigned before it is read again
                if not self.unchanged(eng, st, frame.locals.get(k, None), v):
                    changed.append(k)
            for k, items in lists0.items():
                if k in assigned and k not in live:
                    continue
                if list_items(frame.locals.get(k)) != items and k not in changed:
                    changed.append(k)
            st.prove(name + "/repeat-unchanged", not changed, "a rejected answer changes nothing that is still used (changed: %s)" % changed)
            st.prove(name + "/rejected-only-if-illegal", z3.And(*[norm != lit(v.upper()) for v in legal]),
                     "a question is repeated only when the answer matches no legal value")
            raise PathCut("rejected iteration verified")
        if not left:
            raise PathCut("covered by the rejected case")
        same = all(frame.locals.get(k) is v for k, v in snapshot.items() if k not in assigned)
        st.prove(name + "/frame", same, "the answer loop assigns no local it does not own")
        ctx.data["answers"].append((metric, norm))
        if node.orelse and not broke:
            eng.exec_block(node.orelse, frame, st)
        return True

    @staticmethod
    def unchanged(eng, st, new, old):
        if new is old:
            return True
        from pyvc.interp import is_concrete

        if is_concrete(new) and is_concrete(old) and not isinstance(new, (list, dict, GList)):
            try:
                return type(new) is type(old) and new == old
            except Exception:  # noqa
                return False
        return False

    # -------------------------------------------------------------------------------------------
    def check_return(self, ctx, value):
        from pyvc.sym import regroup

        from .common import strings_equal

        c = ctx.case
        spec, prefix, nd = SPEC[c["version"]]
        answers = ctx.data["answers"]
        asked = [m for m, _ in answers]
        want = list(spec.ORDER) if c["all_metrics"] else list(spec.BASE)
        ctx.prove("post:asks-each-metric-once-in-order", asked == want,
                  "asked %s, specification order %s" % (asked[:6], want[:6]))
        # the field an answer selects: the legal value whose upper-cased spelling equals the
        # upper-cased stripped answer (empty = Not Defined), in its canonical spelling
        items = []
        for m, norm in answers:
            field = regroup([(norm == lit(v.upper()), "%s:%s" % (m, v)) for v in spec.VALUES[m]])
            items.append((z3.BoolVal(True), field))
        expect = S.concat(prefix, S.SCat([S.JoinPiece("/", items)])) if len(items) > 1 else None
        if expect is not None and isinstance(value, (str, SStr, FV)):
            ctx.prove("post:vector==prefix+answers", strings_equal(value, expect),
                      "the result is the version prefix followed by exactly the fields the accepted answers select")
        else:
            ctx.fail("post:vector==prefix+answers", "unexpected result %r" % (type(value).__name__,), status="unknown")
        # the class accepts it: every field is metric:legal, each metric once, all mandatory asked
        ctx.prove("post:accepted-by-class", set(spec.BASE) <= set(asked) and len(set(asked)) == len(asked),
                  "every mandatory metric is asked, none twice; values are legal by construction of the selected field")

    def check_raise(self, ctx, exc):
        if exc.exc_cls is EOFError:
            ctx.prove("raises:EOFError-only-at-end-of-input", True, "end of input is the only escape")
            return
        Contract.check_raise(self, ctx, exc)


def live_at_head(node):
    """names that may be read in a loop iteration before the iteration assigns them (syntactic,
    conservative): reads in the test, and reads in the body not preceded by a top-level assignment"""
    import ast

    def loads(n):
        return {x.id for x in ast.walk(n) if isinstance(x, ast.Name) and isinstance(x.ctx, ast.Load)}

    def stores(t):
        return {x.id for x in ast.walk(t) if isinstance(x, ast.Name) and isinstance(x.ctx, ast.Store)}

    live = set(loads(node.test))
    defined = set()
    for stmt in node.body:
        if isinstance(stmt, ast.For):
            live |= loads(stmt.iter) - defined
            inner = defined | stores(stmt.target)
            for b in stmt.body + stmt.orelse:
                live |= loads(b) - inner
            continue
        live |= loads(stmt) - defined
        if isinstance(stmt, ast.Assign) and all(isinstance(t, ast.Name) for t in stmt.targets):
            defined |= {t.id for t in stmt.targets}
    return live


def assigned_names(node):
    import ast

    out = set()
    for n in ast.walk(node):
        if isinstance(n, ast.Name) and isinstance(n.ctx, ast.Store):
            out.add(n.id)
    return out


# ---- selectability: ground executions of the real answer loop -----------------------------------
def selectable(ctx):
    """every legal value of every metric can be entered (in its own, lower and padded spelling)"""
    from pyvc.contract import REGISTRY, lookup_function
    from pyvc.interp import Engine, PathState

    ver = ctx.case["version"]
    spec, prefix, nd = SPEC[ver]
    eng = ctx.engine
    f = lookup_function(eng, "interactive", "ask_interactively")
    if f is None:
        ctx.fail("exists", "ask_interactively no longer exists")
        return
    order = list(spec.ORDER)
    for m in order:
        for v in spec.VALUES[m]:
            spellings = [v, v.lower(), "  %s\t" % v] + ([""] if v == nd else [])
            for sp in spellings:
                answers = []
                for mm in order:
                    answers.append(sp if mm == m else (spec.VALUES[mm][0]))
                st = PathState(eng, [])
                pos = [0]

                def read_line(e, s, answers=answers, pos=pos):
                    if pos[0] >= len(answers):
                        raise PyRaise(EOFError, ())
                    pos[0] += 1
                    return answers[pos[0] - 1]

                eng.hooks = {"input": read_line}
                try:
                    r = eng.run_body(f, [ver, True, True], {}, st)
                    ok = isinstance(r, str) and ("%s:%s" % (m, v)) in r.split("/")
                except PyRaise as e:
                    ok = False
                    r = "raises %s" % e.exc_cls.__name__
                if not ok:
                    ctx.fail("selectable[%s:%s via %r]" % (m, v, sp), "answer %r to %s does not select %s (result %r)" % (sp, m, v, r))
                    return
    ctx.prove("selectable[all values of version %s]" % ver, True, "every legal value can be entered in its own, lower-case and padded spelling")
