"""
Contracts on cvss/cvss3.py.

Abstract view of a CVSS3 object: (minor, O) with O the original metric map; representation
invariant WF3: dom(O) within the 22 metrics, legal values, mandatory present,
metrics == Fill3(O), scope == O[S], modified_scope == effective MS, every score field equal to
the specification function of (minor, O).
"""
from __future__ import annotations

from fractions import Fraction as F

import z3

from pyvc.contract import Contract, register
from pyvc.sym import SObj, SMap, lit, mk_str, leaves_of, _and, _or, fresh_str, regroup, mk_bool
from spec import v3

from .common import (
    Enc,
    enc_matches,
    enc_value,
    build_map,
    di_matches,
    eff_fv,
    eff_str,
    float_matches,
    frac_to_di,
    fv_int_var,
    lift,
    map_equal,
    values_equal,
    within,
)

# error bound of the two inexact sub-scores (scope changed): 28-digit decimal arithmetic keeps
# them within a few 1e-26 of the real value; the contract promises (and callers may only use)
# this much
ISC_ERR = F(1, 10 ** 24)

eff_fv = eff_fv  # re-exported for lemmas

SCALE = {"isc_base": 6, "esc": 10, "modified_isc_base": 12, "modified_esc": 10, "score": 1, "weight": 2}


def fill_map(o):
    """Fill3(O) as store chains over O (specification of add_missing_optional)"""
    dom, val = o.dom, o.val
    for m in v3.MODIFIED:
        mz, bz = lit(m), lit(m[1:])
        absent = z3.Or(z3.Not(z3.Select(dom, mz)), z3.Select(val, mz) == lit("X"))
        newv = z3.If(absent, z3.Select(val, bz), z3.Select(val, mz))
        val = z3.Store(val, mz, newv)
        dom = z3.Store(dom, mz, z3.BoolVal(True))
    return dom, val


class V3(object):
    """symbolic CVSS3 pre-states and the specification values derived from them"""

    def __init__(self, ctx, prefix="o", omap=None):
        self.ctx = ctx
        self.o = build_map(ctx, prefix, v3.VALUES, v3.BASE) if omap is None else omap(ctx, v3.VALUES)
        self.minor = fv_int_var(ctx, prefix + ".minor", [0, 1])
        # effective (filled) values as finite choices
        e = {}
        for m in v3.BASE:
            e[m] = eff_fv(self.o, m, v3.VALUES[m])
        for m in v3.TEMPORAL + ["CR", "IR", "AR"]:
            e[m] = eff_fv(self.o, m, v3.VALUES[m], "X")
        for m in v3.MODIFIED:
            raw = eff_fv(self.o, m, v3.VALUES[m], "X")
            e[m] = lift(v3.eff_modified, raw, e[m[1:]])
        self.e = e
        self._spec = {}

    # --- specification values (finite choices of Fractions) --------------------------------
    def spec(self, name):
        if name in self._spec:
            return self._spec[name]
        e = self.e
        s, ms = e["S"], e["MS"]
        if name == "iss":
            r = lift(v3.iss, e["C"], e["I"], e["A"], memo=("v3", name))
        elif name == "impact":
            r = lift(v3.impact, s, self.spec("iss"), memo=("v3", name))
        elif name == "expl":
            r = lift(v3.exploitability, e["AV"], e["AC"], e["PR"], e["UI"], s, memo=("v3", name))
        elif name == "base":
            r = lift(v3.base_score, s, self.spec("impact"), self.spec("expl"), memo=("v3", name))
        elif name == "tf":
            r = lift(v3.temporal_factor, e["E"], e["RL"], e["RC"], memo=("v3", name))
        elif name == "temporal":
            r = lift(v3.temporal_score, self.spec("base"), self.spec("tf"), memo=("v3", name))
        elif name == "miss":
            r = lift(v3.miss, e["MC"], e["MI"], e["MA"], e["CR"], e["IR"], e["AR"], memo=("v3", name))
        elif name == "mimpact":
            r = lift(v3.modified_impact, self.minor, ms, self.spec("miss"), memo=("v3", name))
        elif name == "mimpact30":
            r = lift(lambda a, b: v3.modified_impact(0, a, b), ms, self.spec("miss"), memo=("v3", name))
        elif name == "mimpact31":
            r = lift(lambda a, b: v3.modified_impact(1, a, b), ms, self.spec("miss"), memo=("v3", name))
        elif name == "mexpl":
            r = lift(v3.exploitability, e["MAV"], e["MAC"], e["MPR"], e["MUI"], ms, memo=("v3", name))
        elif name == "mbase":
            r = lift(v3.modified_base, ms, self.spec("mimpact"), self.spec("mexpl"), memo=("v3", name))
        elif name == "impact_enc":
            r = lift(lambda sc, x: Enc(v3.impact(sc, x), scale=8) if sc == "U" else Enc(v3.impact(sc, x), err=ISC_ERR),
                     s, self.spec("iss"))
        elif name == "iss_impact":
            r = self.spec("impact")
        elif name in ("mimpact_enc", "mimpact30_enc", "mimpact31_enc"):
            mn = {"mimpact_enc": self.minor, "mimpact30_enc": 0, "mimpact31_enc": 1}[name]
            r = lift(lambda m_, sc, x: Enc(v3.modified_impact(m_, sc, x), scale=14) if sc == "U"
                     else Enc(v3.modified_impact(m_, sc, x), err=ISC_ERR), mn, ms, self.spec("miss"))
        elif name == "env":
            r = lift(v3.environmental_score, self.spec("mbase"), self.spec("tf"), memo=("v3", name))
        else:
            raise KeyError(name)
        self._spec[name] = r
        return r

    def weight(self, abbr):
        """specification weight of metric `abbr` under the effective assignment (None for S/MS)"""
        e = self.e
        if abbr in ("S", "MS"):
            return None
        if abbr == "PR":
            return lift(v3.w_pr, e["PR"], e["S"])
        if abbr == "MPR":
            return lift(v3.w_pr, e["MPR"], e["MS"])
        base = abbr[1:] if abbr in v3.MODIFIED else abbr
        table = {"C": "CIA", "I": "CIA", "A": "CIA", "CR": "REQ", "IR": "REQ", "AR": "REQ"}.get(base, base)
        return lift(lambda v: v3.W[table][v], e[abbr])

    # --- object construction ---------------------------------------------------------------------
    def obj(self, phase, fields=()):
        """
        self at a phase of __init__:  'parsed' (after parse_vector + check_mandatory),
        'scoped' (after handle_scope), 'filled' (after add_missing_optional), 'done'.
        `fields`: names of computed fields to initialise with their specification value.
        """
        ctx = self.ctx
        eng = ctx.engine
        cls = eng.module("cvss3").globals["CVSS3"]
        o = SObj(cls)
        f = o.fields
        f["vector"] = fresh_str("vector")
        f["minor_version"] = self.minor
        f["missing_metrics"] = []
        for n in ("scope", "modified_scope", "base_score", "temporal_score", "environmental_score",
                  "isc_base", "isc", "esc", "modified_isc_base", "modified_isc", "modified_esc",
                  "original_metrics"):
            f[n] = None
        if phase == "parsed" or phase == "scoped":
            m = SMap(self.o.dom, self.o.val, None, "metrics")
            f["metrics"] = m
        else:
            fd, fvv = fill_map(self.o)
            f["metrics"] = SMap(fd, fvv, None, "metrics")
            f["original_metrics"] = SMap(self.o.dom, self.o.val, None, "original_metrics")
        if phase != "parsed":
            f["scope"] = mk_str(self.o.get("S"))
            f["modified_scope"] = self.mscope_str()
        done = phase == "done"
        want = set(fields)
        if done:
            want |= {"base_score", "temporal_score", "environmental_score", "isc_base", "isc", "esc",
                     "modified_isc_base", "modified_isc", "modified_esc"}
        for n in want:
            f[n] = self.field_value(n)
        ctx.data["self"] = o
        ctx.data["v3"] = self
        ctx.data["frozen_maps"] = []
        o.assumed_state = True
        o.assumed_fields = set(o.fields)
        o.v3view = self
        o.written = set()
        # fields the representation invariant does not mention are derived from the code
        from pyvc import extra

        extra.attach(ctx, o, "v3view", self, known=set(o.fields),
                     stop_after={"parsed": "check_mandatory", "scoped": "handle_scope",
                                 "filled": "add_missing_optional", "done": None}[phase],
                     parsed_fields=lambda: {"metrics": SMap(self.o.dom, self.o.val, None, "metrics"),
                                            "minor_version": self.minor},
                     accessors=ACCESSORS3, closure=(phase == "done"))
        return o

    def mscope_str(self):
        t = lit("C")
        for g, x in leaves_of(self.e["MS"]):
            if x == "U":
                t = z3.If(g, lit("U"), lit("C"))
        return mk_str(t)

    def mscope_fv(self):
        return self.e["MS"]

    def field_value(self, n):
        """value a caller may assume for a computed field (certified enclosure of the spec)"""
        if n == "isc_base":
            return lift(frac_to_di(SCALE["isc_base"], "?"), self.spec("iss"))
        if n == "isc":
            return enc_value(self.spec("impact_enc"))
        if n == "esc":
            return lift(frac_to_di(SCALE["esc"], "?"), self.spec("expl"))
        if n in ("base_score", "temporal_score", "environmental_score"):
            sname = {"base_score": "base", "temporal_score": "temporal", "environmental_score": "env"}[n]
            return score_repr(self.ctx, self.spec(sname), n)
        if n == "modified_isc_base":
            return lift(frac_to_di(SCALE["modified_isc_base"], "?"), self.spec("miss"))
        if n == "modified_isc":
            return enc_value(self.spec("mimpact_enc"))
        if n == "modified_esc":
            return lift(frac_to_di(SCALE["modified_esc"], "?"), self.spec("mexpl"))
        raise KeyError(n)


_TF = (True, False)
ACCESSORS3 = (
    ("scores", [((), {})]), ("severities", [((), {})]),
    ("clean_vector", [((), {"output_prefix": b}) for b in _TF]),
    ("rh_vector", [((), {})]), ("temporal_vector", [((), {})]), ("environmental_vector", [((), {})]),
    ("as_json", [((), {"sort": a, "minimal": b}) for a in _TF for b in _TF]),
    ("__hash__", [((), {})]), ("__eq__", []),
    ("get_value_description", []),
)


def score_repr(ctx, spec, tag):
    """
    every Decimal the invariant admits for a score field: the value with one decimal place and,
    for whole numbers, also with none (the invariant only promises scale <= 1); a free
    representation variable makes accessors work for both
    """
    from pyvc import fd
    import itertools as _it

    rep = fd.var("rep.%s.%d" % (tag, next(_REP)), [1, 0])

    def conv(x, r):
        if x is None:
            return None
        x = F(x)
        if r == 0 and x.denominator == 1:
            return DI(x, x, scale=0)
        return DI(x, x, scale=1)

    return lift(conv, spec, rep)


import itertools as _it0  # noqa: E402

_REP = _it0.count()
from pyvc.sym import DI  # noqa: E402


FIELD_SPEC = {
    "isc_base": ("iss", dict(max_scale=6)),
    "isc": ("impact_enc", "enc"),
    "esc": ("expl", dict(max_scale=10)),
    "base_score": ("base", dict(max_scale=1, strict_zero=True)),
    "temporal_score": ("temporal", dict(max_scale=1, strict_zero=True)),
    "environmental_score": ("env", dict(max_scale=1, strict_zero=True)),
    "modified_isc_base": ("miss", dict(max_scale=12)),
    "modified_isc": ("mimpact_enc", "enc"),
    "modified_esc": ("mexpl", dict(max_scale=10)),
}


def field_ok(o, v, n):
    sname, kw = FIELD_SPEC[n]
    if kw == "enc":
        return enc_matches(o.fields.get(n), v.spec(sname))
    return di_matches(o.fields.get(n), v.spec(sname), **kw)


def view_of(eng, st, self_obj):
    """the V3 view attached to the object a caller passes (one symbolic object per unit)"""
    v = getattr(self_obj, "v3view", None)
    if v is None:
        raise RuntimeError("object without a V3 view")
    return v


class V3Contract(Contract):
    module = "cvss3"
    phase = "filled"
    pre_fields = ()
    post_fields = ()  # computed fields the function establishes
    modifies = frozenset()

    def setup(self, ctx):
        v = V3(ctx)
        o = v.obj(self.phase, self.pre_fields)
        o.v3view = v
        o.written = set()
        ctx.data["frozen_maps"] = [("self.metrics", o.fields["metrics"])] + (
            [("self.original_metrics", o.fields["original_metrics"])]
            if isinstance(o.fields.get("original_metrics"), SMap)
            else []
        )
        return [o], {}

    def check_return(self, ctx, value):
        o, v = ctx.data["self"], ctx.data["v3"]
        for n in self.post_fields:
            sname = FIELD_SPEC[n][0]
            ctx.prove("post:%s==%s" % (n, sname), field_ok(o, v, n),
                      "self.%s equals the specification's %s" % (n, sname))

    # callers' view: check the precondition fields, havoc the frame, assume the postcondition
    def effect(self, eng, st, args, kwargs):
        if not self.post_fields and not self.pre_fields:
            return NotImplemented
        o = args[0]
        v = view_of(eng, st, o)
        for n in self.pre_fields:
            sname = FIELD_SPEC[n][0]
            st.prove("%s/pre@call:%s" % (self.oid, n), field_ok(o, v, n),
                     "caller establishes self.%s == %s" % (n, sname))
        for n in self.post_fields:
            eng.set_attr(o, n, v.field_value(n), st)
        return None


def simple(qualname, pre, post, phase="filled"):
    cls = type(
        "C_" + qualname.replace(".", "_"),
        (V3Contract,),
        dict(qualname=qualname, pre_fields=tuple(pre), post_fields=tuple(post), modifies=frozenset(post), phase=phase),
    )
    return register(cls)


simple("CVSS3.compute_isc_base", [], ["isc_base"])
simple("CVSS3.compute_isc", ["isc_base"], ["isc"])
simple("CVSS3.compute_esc", [], ["esc"])
simple("CVSS3.compute_temporal_score", ["base_score"], ["temporal_score"])
simple("CVSS3.compute_modified_isc_base", [], ["modified_isc_base"])
simple("CVSS3.compute_modified_esc", [], ["modified_esc"])


@register
class ComputeBaseScore(V3Contract):
    qualname = "CVSS3.compute_base_score"
    post_fields = ("isc_base", "isc", "esc", "base_score")
    modifies = frozenset(post_fields)


@register
class ComputeEnvScore(V3Contract):
    qualname = "CVSS3.compute_environmental_score"
    pre_fields = ()
    post_fields = ("modified_isc_base", "modified_isc", "modified_esc", "environmental_score")
    modifies = frozenset(post_fields)


class ModifiedIsc(V3Contract):
    pre_fields = ("modified_isc_base",)
    modifies = frozenset(["modified_isc"])
    which = None

    def check_return(self, ctx, value):
        o, v = ctx.data["self"], ctx.data["v3"]
        ctx.prove("post:modified_isc==%s" % self.which,
                  enc_matches(o.fields.get("modified_isc"), v.spec(self.which + "_enc")),
                  "self.modified_isc is the %s modified impact" % self.which)

    def effect(self, eng, st, args, kwargs):
        o = args[0]
        v = view_of(eng, st, o)
        st.prove("%s/pre@call:modified_isc_base" % self.oid,
                 di_matches(o.fields.get("modified_isc_base"), v.spec("miss"), max_scale=12))
        eng.set_attr(o, "modified_isc", enc_value(v.spec(self.which + "_enc")), st)
        return None


@register
class ModifiedIsc30(ModifiedIsc):
    qualname = "CVSS3.compute_modified_isc_30"
    which = "mimpact30"


@register
class ModifiedIsc31(ModifiedIsc):
    qualname = "CVSS3.compute_modified_isc"
    which = "mimpact31"


@register
class GetValue(V3Contract):
    qualname = "CVSS3.get_value"
    cases = tuple({"abbreviation": m} for m in v3.ORDER)
    modifies = frozenset()

    def setup(self, ctx):
        args, kw = V3Contract.setup(self, ctx)
        return args + [ctx.case["abbreviation"]], kw

    def check_return(self, ctx, value):
        v = ctx.data["v3"]
        abbr = ctx.case["abbreviation"]
        w = v.weight(abbr)
        if w is None:
            ctx.prove("post:none", value is None, "get_value(%s) is None (Scope has no weight)" % abbr)
        else:
            ctx.prove("post:weight", di_matches(value, w, max_scale=2),
                      "get_value(%s) is the specification weight of the effective value" % abbr)

    def effect(self, eng, st, args, kwargs):
        o = args[0]
        abbr = args[1] if len(args) > 1 else kwargs.get("abbreviation")
        if not isinstance(abbr, str) or abbr not in v3.VALUES:
            return NotImplemented
        v = view_of(eng, st, o)
        w = v.weight(abbr)
        if w is None:
            return None
        return lift(frac_to_di(2), w)


@register
class HandleScope(V3Contract):
    qualname = "CVSS3.handle_scope"
    phase = "parsed"
    modifies = frozenset(["scope", "modified_scope"])

    def check_return(self, ctx, value):
        o, v = ctx.data["self"], ctx.data["v3"]
        ctx.prove("post:scope", values_equal(o.fields.get("scope"), mk_str(v.o.get("S"))), "scope == O[S]")
        ctx.prove("post:modified_scope", values_equal(o.fields.get("modified_scope"), v.mscope_str()),
                  "modified_scope is MS unless absent/X, then S")

    def effect(self, eng, st, args, kwargs):
        o = args[0]
        v = view_of(eng, st, o)
        eng.set_attr(o, "scope", mk_str(v.o.get("S")), st)
        eng.set_attr(o, "modified_scope", v.mscope_str(), st)
        return None


@register
class AddMissingOptional(V3Contract):
    qualname = "CVSS3.add_missing_optional"
    phase = "scoped"
    modifies = frozenset(["original_metrics", "metrics"])

    def setup(self, ctx):
        args, kw = V3Contract.setup(self, ctx)
        ctx.data["frozen_maps"] = []
        return args, kw

    def check_return(self, ctx, value):
        o, v = ctx.data["self"], ctx.data["v3"]
        om, m = o.fields.get("original_metrics"), o.fields.get("metrics")
        ok = isinstance(om, SMap) and isinstance(m, SMap)
        if not ok:
            ctx.fail("post:maps", "original_metrics / metrics are not metric maps after the call", status="unknown")
            return
        ctx.prove("post:original==O", map_equal(om.dom, om.val, v.o.dom, v.o.val, v3.ORDER),
                  "original_metrics is a copy of the parsed map")
        fd, fv_ = fill_map(v.o)
        ctx.prove("post:metrics==Fill(O)", map_equal(m.dom, m.val, fd, fv_, v3.ORDER),
                  "absent or X modified metrics take their base metric's value")
        ctx.prove("post:distinct-objects", om is not m, "original_metrics does not alias metrics")

    def effect(self, eng, st, args, kwargs):
        o = args[0]
        v = view_of(eng, st, o)
        fd, fv_ = fill_map(v.o)
        eng.set_attr(o, "original_metrics", SMap(v.o.dom, v.o.val, None, "original_metrics"), st)
        eng.set_attr(o, "metrics", SMap(fd, fv_, None, "metrics"), st)
        return None


@register
class Scores(V3Contract):
    qualname = "CVSS3.scores"
    phase = "done"
    modifies = frozenset()

    def check_return(self, ctx, value):
        v = ctx.data["v3"]
        if not (isinstance(value, tuple) and len(value) == 3):
            ctx.fail("post:shape", "scores() does not return a 3-tuple")
            return
        for x, n in zip(value, ("base", "temporal", "env")):
            ctx.prove("post:%s" % n, float_matches(x, v.spec(n)),
                      "scores() reports float(%s score of the specification)" % n)

    def effect(self, eng, st, args, kwargs):
        v = view_of(eng, st, args[0])
        conv = lambda x: float(x)  # noqa
        return tuple(lift(lambda x: x.numerator / x.denominator, v.spec(n)) for n in ("base", "temporal", "env"))


# ============================================================================================
# accessors (object fully constructed: WF3)

from pyvc import strings as S  # noqa: E402
from pyvc.sym import SBool, SInt, SStr, FV, eq_z3, fv_apply  # noqa: E402
from spec import names as N  # noqa: E402
from .common import canon_string, strings_equal, field_fv, defined_guard  # noqa: E402


def prefix3(v, output_prefix=True):
    if not output_prefix:
        return ""
    return lift(lambda mn: "CVSS:3.%d/" % mn, v.minor)


def canon3(v, output_prefix=True):
    return canon_string(prefix3(v, output_prefix), v.o, v3.ORDER, "X")


def sev3(v, n):
    return lift(v3.severity, v.spec(n))


def score_str(v, n):
    return lift(lambda x: "%.1f" % float(x), v.spec(n))


class Accessor3(V3Contract):
    phase = "done"
    modifies = frozenset()


@register
class Severities3(Accessor3):
    qualname = "CVSS3.severities"

    def check_return(self, ctx, value):
        v = ctx.data["v3"]
        if not (isinstance(value, tuple) and len(value) == 3):
            ctx.fail("post:shape", "severities() does not return a 3-tuple")
            return
        for x, n in zip(value, ("base", "temporal", "env")):
            ctx.prove("post:%s" % n, eq_z3(x, sev3(v, n)),
                      "the %s rating is the one the official scale assigns to the %s score" % (n, n))

    def effect(self, eng, st, args, kwargs):
        v = view_of(eng, st, args[0])
        return tuple(sev3(v, n) for n in ("base", "temporal", "env"))


@register
class CleanVector3(Accessor3):
    qualname = "CVSS3.clean_vector"
    cases = ({"output_prefix": True}, {"output_prefix": False}, {"output_prefix": "default"})

    def setup(self, ctx):
        args, kw = Accessor3.setup(self, ctx)
        op = ctx.case["output_prefix"]
        if op == "default":
            return args, kw
        return args, {"output_prefix": op}

    def check_return(self, ctx, value):
        v = ctx.data["v3"]
        op = ctx.case["output_prefix"]
        spec = canon3(v, True if op == "default" else op)
        if not isinstance(value, (str, SStr, FV)):
            ctx.fail("post:type", "clean_vector() does not return a string")
            return
        ctx.prove("post:canonical", strings_equal(value, spec),
                  "prefix + every defined metric once, in specification order, joined by '/'")

    def effect(self, eng, st, args, kwargs):
        v = view_of(eng, st, args[0])
        op = args[1] if len(args) > 1 else kwargs.get("output_prefix", True)
        if not isinstance(op, bool):
            return NotImplemented
        return canon3(v, op)


@register
class RhVector3(Accessor3):
    qualname = "CVSS3.rh_vector"

    def check_return(self, ctx, value):
        v = ctx.data["v3"]
        spec = S.concat(S.concat(score_str(v, "base"), "/"), canon3(v))
        ctx.prove("post:rh", strings_equal(value, spec),
                  "base score with one decimal + '/' + cleaned vector")

    def effect(self, eng, st, args, kwargs):
        v = view_of(eng, st, args[0])
        return S.concat(S.concat(score_str(v, "base"), "/"), canon3(v))


def subvector3(v, metrics):
    return S.join("/", [field_fv(m, v.e[m]) for m in metrics])


@register
class TemporalVector3(Accessor3):
    qualname = "CVSS3.temporal_vector"

    def check_return(self, ctx, value):
        ctx.prove("post:temporal_vector", strings_equal(value, subvector3(ctx.data["v3"], v3.TEMPORAL)),
                  "E, RL, RC in order with the given value or X")

    def effect(self, eng, st, args, kwargs):
        return subvector3(view_of(eng, st, args[0]), v3.TEMPORAL)


@register
class EnvironmentalVector3(Accessor3):
    qualname = "CVSS3.environmental_vector"

    def check_return(self, ctx, value):
        ctx.prove("post:environmental_vector",
                  strings_equal(value, subvector3(ctx.data["v3"], v3.ENVIRONMENTAL)),
                  "CR..MA in order; requirement: given value or X; modified: given value or the base value")

    def effect(self, eng, st, args, kwargs):
        return subvector3(view_of(eng, st, args[0]), v3.ENVIRONMENTAL)


@register
class GetValueDescription3(Accessor3):
    qualname = "CVSS3.get_value_description"
    cases = tuple({"abbreviation": m} for m in v3.ORDER)

    def setup(self, ctx):
        args, kw = Accessor3.setup(self, ctx)
        return args + [ctx.case["abbreviation"]], kw

    def check_return(self, ctx, value):
        v = ctx.data["v3"]
        m = ctx.case["abbreviation"]
        want = lift(lambda x: N.V3_VALUES[m][x], v.e[m])
        got = value if isinstance(value, str) else fv_apply(json_name3, value) if isinstance(value, FV) else None
        if got is None:
            ctx.fail("post:type", "get_value_description does not return a finite string")
            return
        ctx.prove("post:names-effective-value", eq_z3(got, want),
                  "the description (upper-snake-cased) names the effective value of %s" % m)

    def effect(self, eng, st, args, kwargs):
        return NotImplemented  # the postcondition does not fix the spelling: callers inline it


def json_name3(text):
    """the schema's spelling of a value description (what as_json's `us` must produce)"""
    if text == "Adjacent":
        return "ADJACENT_NETWORK"
    return text.upper().replace("-", "_").replace(" ", "_")


@register
class Hash3(Accessor3):
    qualname = "CVSS3.__hash__"

    def check_return(self, ctx, value):
        v = ctx.data["v3"]
        want = S.pyhash(canon3(v))
        ok = isinstance(value, SInt)
        ctx.prove("post:hash-of-canonical", (value.z == want.z) if ok else False,
                  "hash is a function of the canonical vector only")
        evs = [e for e in ctx.st.events if e[0] == "hash"]
        ctx.prove("post:single-hash-source", len(evs) == 1, "exactly one string is hashed")


@register
class Eq3(Accessor3):
    qualname = "CVSS3.__eq__"
    cases = ({"other": "CVSS3"}, {"other": "str"}, {"other": "None"}, {"other": "CVSS2"})

    def setup(self, ctx):
        args, kw = Accessor3.setup(self, ctx)
        kind = ctx.case["other"]
        if kind == "CVSS3":
            first = ctx.data["v3"]
            frozen = ctx.data["frozen_maps"]
            v2_ = V3(ctx, "p")
            other = v2_.obj("done")
            other.v3view = v2_
            ctx.data["self"] = args[0]
            ctx.data["v3"] = first
            ctx.data["other_view"] = v2_
            ctx.data["foreign"] = [other]
            ctx.data["frozen_maps"] = frozen + [("other.metrics", other.fields["metrics"]),
                                                ("other.original_metrics", other.fields["original_metrics"])]
        elif kind == "str":
            other = fresh_str("other")
        elif kind == "CVSS2":
            from pyvc.sym import SObj as _SObj

            other = _SObj(ctx.engine.module("cvss2").globals["CVSS2"])
            ctx.data["foreign"] = [other]
        else:
            other = None
        return args + [other], kw

    def check_return(self, ctx, value):
        v = ctx.data["v3"]
        kind = ctx.case["other"]
        if kind != "CVSS3":
            ctx.prove("post:other-type", value is False, "never equal to a value of another type")
            return
        w = ctx.data["other_view"]
        conj = [eq_z3(v.minor, w.minor)]
        for k in v3.ORDER:
            ga, gb = defined_guard(v.o, k, "X"), defined_guard(w.o, k, "X")
            conj.append(ga == gb)
            conj.append(z3.Implies(ga, eq_z3(v.o.info[k][2], w.o.info[k][2])))
        want = z3.And(*conj)
        got = value.z if isinstance(value, SBool) else z3.BoolVal(value) if isinstance(value, bool) else None
        if got is None:
            ctx.fail("post:type", "__eq__ does not return a bool")
            return
        ctx.prove("post:eq-iff-same-version-and-defined-metrics", got == want,
                  "a == b exactly when minor versions agree and the same metrics are defined with the same values")


from .common import json_doc_obligations  # noqa: E402
from spec import jsonschema as JS  # noqa: E402


def json_spec3(v, o, minimal):
    """[(key, presence, value)] of the JSON document of a CVSS3 object"""
    T = z3.BoolVal(True)
    items = [("version", T, lift(lambda mn: "3.%d" % mn, v.minor)), ("vectorString", T, o.fields["vector"])]
    for m in v3.BASE:
        items.append((N.V3_KEYS[m], T, lift(lambda x, m=m: N.V3_VALUES[m][x], v.e[m])))
    items.append(("baseScore", T, v.spec("base")))
    items.append(("baseSeverity", T, lift(lambda s: N.SEVERITY_JSON[v3.severity(s)], v.spec("base"))))
    for grp, metrics, sc in (("temporal", v3.TEMPORAL, "temporal"), ("environmental", v3.ENVIRONMENTAL, "env")):
        if minimal:
            low = z3.Or(*[defined_guard(v.o, m, "X") for m in metrics])
            pres = ("atleast", low, grp)
        else:
            pres = T
        for m in metrics:
            items.append((N.V3_KEYS[m], pres, lift(lambda x, m=m: N.V3_VALUES[m][x], v.e[m])))
        name = "temporal" if grp == "temporal" else "environmental"
        items.append((name + "Score", pres, v.spec(sc)))
        items.append((name + "Severity", pres, lift(lambda s: N.SEVERITY_JSON[v3.severity(s)], v.spec(sc))))
    return items


def schema_obligations(ctx, result, version, skip=("vectorString",), only=None):
    """C10: every fragment of the official schema holds for every leaf combination of the document"""
    from pyvc.interp import UNBOUND

    root = JS.load(version)
    for k in (root.get("required", []) if only is None else []):
        v = result.get(k, UNBOUND) if isinstance(result, dict) else UNBOUND
        unconditional = v is not UNBOUND and not (isinstance(v, FV) and any(x is UNBOUND for x in v.values))
        ctx.prove("schema:required[%s]" % k, unconditional, "required field %s is always present" % k)
    for name, props, frag in JS.fragments(root):
        if any(p in skip for p in props):
            continue
        if only is not None and name not in only:
            continue
        vals = [result.get(p, UNBOUND) for p in props]
        if all(x is UNBOUND for x in vals):
            continue
        if any(isinstance(x, SStr) for x in vals):
            ctx.fail("schema:%s" % name, "abstract value under schema fragment %s" % name, status="unknown")
            continue

        def ok(*xs):
            doc = {p: x for p, x in zip(props, xs) if x is not UNBOUND}
            return JS.valid(root, frag, doc)

        r = fv_apply(ok, *vals)
        goal = r.z if isinstance(r, SBool) else z3.BoolVal(bool(r))
        ctx.prove("schema:%s" % name, goal, "schema fragment %s over fields %s" % (name, ",".join(props)))


@register
class AsJson3(Accessor3):
    qualname = "CVSS3.as_json"
    cases = tuple({"sort": s, "minimal": m} for s in (False, True) for m in (False, True)) + ({"sort": "default", "minimal": "default"},)

    def setup(self, ctx):
        args, kw = Accessor3.setup(self, ctx)
        if ctx.case["sort"] == "default":
            return args, kw
        return args, {"sort": ctx.case["sort"], "minimal": ctx.case["minimal"]}

    def check_return(self, ctx, value):
        v, o = ctx.data["v3"], ctx.data["self"]
        sort = False if ctx.case["sort"] == "default" else ctx.case["sort"]
        minimal = False if ctx.case["minimal"] == "default" else ctx.case["minimal"]
        json_doc_obligations(ctx, value, json_spec3(v, o, minimal), sort, None)
        if isinstance(value, dict):
            # the document validates against both minor versions' schemas on its own version
            for ver, mn in (("3.0", 0), ("3.1", 1)):
                if ctx.st.feasible(eq_z3(v.minor, mn)):
                    saved = list(ctx.st.pc), list(ctx.st.fd_cons)
                    # obligations for this minor version are proved under the hypothesis minor == mn
                    g = eq_z3(v.minor, mn)
                    sub = _Hyp(ctx, g, "[%s]" % ver)
                    schema_obligations(sub, value, ver)
            fresh = all(not ctx.engine.is_global_obj(x) for x in [value])
            ctx.prove("post:fresh-dict", fresh and value is not o.fields.get("metrics") and value is not o.fields.get("original_metrics"),
                      "the returned dict is freshly allocated")


class _Hyp(object):
    """obligations under an extra hypothesis"""

    def __init__(self, ctx, hyp, tag):
        self.ctx, self.hyp, self.tag = ctx, hyp, tag
        self.st = ctx.st
        self.engine = ctx.engine

    def prove(self, name, goal, detail=None):
        if isinstance(goal, bool):
            goal = z3.BoolVal(goal)
        return self.ctx.prove(name + self.tag, z3.Implies(self.hyp, goal), detail)

    def fail(self, name, detail, status="refuted"):
        return self.ctx.fail(name + self.tag, detail, status)
