"""
Contracts on cvss/cvss3.py.

Abstract view of a CVSS3 object: (minor, O) with O the original metric map; representation
invariant WF3: dom(O) within the 22 metrics, legal values, mandatory present,
metrics == Fill3(O), scope == O[S], modified_scope == effective MS, every score field equal to
the specification function of (minor, O).
"""
from __future__ import annotations

from fractions import Fraction as F

import z3

from pyvc.contract import Contract, register
from pyvc.sym import SObj, SMap, lit, mk_str, leaves_of, _and, _or, fresh_str, regroup, mk_bool
from spec import v3

from .common import (
    Enc,
    enc_matches,
    enc_value,
    build_map,
    di_matches,
    eff_fv,
    eff_str,
    float_matches,
    frac_to_di,
    fv_int_var,
    lift,
    map_equal,
    values_equal,
    within,
)

# error bound of the two inexact sub-scores (scope changed): 28-digit decimal arithmetic keeps
# them within a few 1e-26 of the real value; the contract promises (and callers may only use)
# this much
ISC_ERR = F(1, 10 ** 24)

SCALE = {"isc_base": 6, "esc": 10, "modified_isc_base": 12, "modified_esc": 10, "score": 1, "weight": 2}


def fill_map(o):
    """Fill3(O) as store chains over O (specification of add_missing_optional)"""
    dom, val = o.dom, o.val
    for m in v3.MODIFIED:
        mz, bz = lit(m), lit(m[1:])
        absent = z3.Or(z3.Not(z3.Select(dom, mz)), z3.Select(val, mz) == lit("X"))
        newv = z3.If(absent, z3.Select(val, bz), z3.Select(val, mz))
        val = z3.Store(val, mz, newv)
        dom = z3.Store(dom, mz, z3.BoolVal(True))
    return dom, val


class V3(object):
    """symbolic CVSS3 pre-states and the specification values derived from them"""

    def __init__(self, ctx, prefix="o"):
        self.ctx = ctx
        self.o = build_map(ctx, prefix, v3.VALUES, v3.BASE)
        self.minor = fv_int_var(ctx, prefix + ".minor", [0, 1])
        # effective (filled) values as finite choices
        e = {}
        for m in v3.BASE:
            e[m] = eff_fv(self.o, m, v3.VALUES[m])
        for m in v3.TEMPORAL + ["CR", "IR", "AR"]:
            e[m] = eff_fv(self.o, m, v3.VALUES[m], "X")
        for m in v3.MODIFIED:
            raw = eff_fv(self.o, m, v3.VALUES[m], "X")
            e[m] = lift(v3.eff_modified, raw, e[m[1:]])
        self.e = e
        self._spec = {}

    # --- specification values (finite choices of Fractions) --------------------------------
    def spec(self, name):
        if name in self._spec:
            return self._spec[name]
        e = self.e
        s, ms = e["S"], e["MS"]
        if name == "iss":
            r = lift(v3.iss, e["C"], e["I"], e["A"])
        elif name == "impact":
            r = lift(v3.impact, s, self.spec("iss"))
        elif name == "expl":
            r = lift(v3.exploitability, e["AV"], e["AC"], e["PR"], e["UI"], s)
        elif name == "base":
            r = lift(v3.base_score, s, self.spec("impact"), self.spec("expl"))
        elif name == "tf":
            r = lift(v3.temporal_factor, e["E"], e["RL"], e["RC"])
        elif name == "temporal":
            r = lift(v3.temporal_score, self.spec("base"), self.spec("tf"))
        elif name == "miss":
            r = lift(v3.miss, e["MC"], e["MI"], e["MA"], e["CR"], e["IR"], e["AR"])
        elif name == "mimpact":
            r = lift(v3.modified_impact, self.minor, ms, self.spec("miss"))
        elif name == "mimpact30":
            r = lift(lambda a, b: v3.modified_impact(0, a, b), ms, self.spec("miss"))
        elif name == "mimpact31":
            r = lift(lambda a, b: v3.modified_impact(1, a, b), ms, self.spec("miss"))
        elif name == "mexpl":
            r = lift(v3.exploitability, e["MAV"], e["MAC"], e["MPR"], e["MUI"], ms)
        elif name == "mbase":
            r = lift(v3.modified_base, ms, self.spec("mimpact"), self.spec("mexpl"))
        elif name == "impact_enc":
            r = lift(lambda sc, x: Enc(v3.impact(sc, x), scale=8) if sc == "U" else Enc(v3.impact(sc, x), err=ISC_ERR),
                     s, self.spec("iss"))
        elif name == "iss_impact":
            r = self.spec("impact")
        elif name in ("mimpact_enc", "mimpact30_enc", "mimpact31_enc"):
            mn = {"mimpact_enc": self.minor, "mimpact30_enc": 0, "mimpact31_enc": 1}[name]
            r = lift(lambda m_, sc, x: Enc(v3.modified_impact(m_, sc, x), scale=14) if sc == "U"
                     else Enc(v3.modified_impact(m_, sc, x), err=ISC_ERR), mn, ms, self.spec("miss"))
        elif name == "env":
            r = lift(v3.environmental_score, self.spec("mbase"), self.spec("tf"))
        else:
            raise KeyError(name)
        self._spec[name] = r
        return r

    def weight(self, abbr):
        """specification weight of metric `abbr` under the effective assignment (None for S/MS)"""
        e = self.e
        if abbr in ("S", "MS"):
            return None
        if abbr == "PR":
            return lift(v3.w_pr, e["PR"], e["S"])
        if abbr == "MPR":
            return lift(v3.w_pr, e["MPR"], e["MS"])
        base = abbr[1:] if abbr in v3.MODIFIED else abbr
        table = {"C": "CIA", "I": "CIA", "A": "CIA", "CR": "REQ", "IR": "REQ", "AR": "REQ"}.get(base, base)
        return lift(lambda v: v3.W[table][v], e[abbr])

    # --- object construction ---------------------------------------------------------------------
    def obj(self, phase, fields=()):
        """
        self at a phase of __init__:  'parsed' (after parse_vector + check_mandatory),
        'scoped' (after handle_scope), 'filled' (after add_missing_optional), 'done'.
        `fields`: names of computed fields to initialise with their specification value.
        """
        ctx = self.ctx
        eng = ctx.engine
        cls = eng.module("cvss3").globals["CVSS3"]
        o = SObj(cls)
        f = o.fields
        f["vector"] = fresh_str("vector")
        f["minor_version"] = self.minor
        f["missing_metrics"] = []
        for n in ("scope", "modified_scope", "base_score", "temporal_score", "environmental_score",
                  "isc_base", "isc", "esc", "modified_isc_base", "modified_isc", "modified_esc",
                  "original_metrics"):
            f[n] = None
        if phase == "parsed" or phase == "scoped":
            m = SMap(self.o.dom, self.o.val, None, "metrics")
            f["metrics"] = m
        else:
            fd, fvv = fill_map(self.o)
            f["metrics"] = SMap(fd, fvv, None, "metrics")
            f["original_metrics"] = SMap(self.o.dom, self.o.val, None, "original_metrics")
        if phase != "parsed":
            f["scope"] = mk_str(self.o.get("S"))
            f["modified_scope"] = self.mscope_str()
        done = phase == "done"
        want = set(fields)
        if done:
            want |= {"base_score", "temporal_score", "environmental_score", "isc_base", "isc", "esc",
                     "modified_isc_base", "modified_isc", "modified_esc"}
        for n in want:
            f[n] = self.field_value(n)
        ctx.data["self"] = o
        ctx.data["v3"] = self
        ctx.data["frozen_maps"] = []
        return o

    def mscope_str(self):
        t = lit("C")
        for g, x in leaves_of(self.e["MS"]):
            if x == "U":
                t = z3.If(g, lit("U"), lit("C"))
        return mk_str(t)

    def mscope_fv(self):
        return self.e["MS"]

    def field_value(self, n):
        """value a caller may assume for a computed field (certified enclosure of the spec)"""
        if n == "isc_base":
            return lift(frac_to_di(SCALE["isc_base"], "?"), self.spec("iss"))
        if n == "isc":
            return enc_value(self.spec("impact_enc"))
        if n == "esc":
            return lift(frac_to_di(SCALE["esc"], "?"), self.spec("expl"))
        if n == "base_score":
            return lift(frac_to_di(1), self.spec("base"))
        if n == "temporal_score":
            return lift(frac_to_di(1), self.spec("temporal"))
        if n == "environmental_score":
            return lift(frac_to_di(1), self.spec("env"))
        if n == "modified_isc_base":
            return lift(frac_to_di(SCALE["modified_isc_base"], "?"), self.spec("miss"))
        if n == "modified_isc":
            return enc_value(self.spec("mimpact_enc"))
        if n == "modified_esc":
            return lift(frac_to_di(SCALE["modified_esc"], "?"), self.spec("mexpl"))
        raise KeyError(n)


FIELD_SPEC = {
    "isc_base": ("iss", dict(max_scale=6)),
    "isc": ("impact_enc", "enc"),
    "esc": ("expl", dict(max_scale=10)),
    "base_score": ("base", dict(max_scale=1, strict_zero=True)),
    "temporal_score": ("temporal", dict(max_scale=1, strict_zero=True)),
    "environmental_score": ("env", dict(max_scale=1, strict_zero=True)),
    "modified_isc_base": ("miss", dict(max_scale=12)),
    "modified_isc": ("mimpact_enc", "enc"),
    "modified_esc": ("mexpl", dict(max_scale=10)),
}


def field_ok(o, v, n):
    sname, kw = FIELD_SPEC[n]
    if kw == "enc":
        return enc_matches(o.fields.get(n), v.spec(sname))
    return di_matches(o.fields.get(n), v.spec(sname), **kw)


def view_of(eng, st, self_obj):
    """the V3 view attached to the object a caller passes (one symbolic object per unit)"""
    v = getattr(self_obj, "v3view", None)
    if v is None:
        raise RuntimeError("object without a V3 view")
    return v


class V3Contract(Contract):
    module = "cvss3"
    phase = "filled"
    pre_fields = ()
    post_fields = ()  # computed fields the function establishes
    modifies = frozenset()

    def setup(self, ctx):
        v = V3(ctx)
        o = v.obj(self.phase, self.pre_fields)
        o.v3view = v
        o.written = set()
        ctx.data["frozen_maps"] = [("self.metrics", o.fields["metrics"])] + (
            [("self.original_metrics", o.fields["original_metrics"])]
            if isinstance(o.fields.get("original_metrics"), SMap)
            else []
        )
        return [o], {}

    def check_return(self, ctx, value):
        o, v = ctx.data["self"], ctx.data["v3"]
        for n in self.post_fields:
            sname = FIELD_SPEC[n][0]
            ctx.prove("post:%s==%s" % (n, sname), field_ok(o, v, n),
                      "self.%s equals the specification's %s" % (n, sname))

    # callers' view: check the precondition fields, havoc the frame, assume the postcondition
    def effect(self, eng, st, args, kwargs):
        o = args[0]
        v = view_of(eng, st, o)
        for n in self.pre_fields:
            sname = FIELD_SPEC[n][0]
            st.prove("%s/pre@call:%s" % (self.oid, n), field_ok(o, v, n),
                     "caller establishes self.%s == %s" % (n, sname))
        for n in self.post_fields:
            eng.set_attr(o, n, v.field_value(n), st)
        return None


def simple(qualname, pre, post, phase="filled"):
    cls = type(
        "C_" + qualname.replace(".", "_"),
        (V3Contract,),
        dict(qualname=qualname, pre_fields=tuple(pre), post_fields=tuple(post), modifies=frozenset(post), phase=phase),
    )
    return register(cls)


simple("CVSS3.compute_isc_base", [], ["isc_base"])
simple("CVSS3.compute_isc", ["isc_base"], ["isc"])
simple("CVSS3.compute_esc", [], ["esc"])
simple("CVSS3.compute_temporal_score", ["base_score"], ["temporal_score"])
simple("CVSS3.compute_modified_isc_base", [], ["modified_isc_base"])
simple("CVSS3.compute_modified_esc", [], ["modified_esc"])


@register
class ComputeBaseScore(V3Contract):
    qualname = "CVSS3.compute_base_score"
    post_fields = ("isc_base", "isc", "esc", "base_score")
    modifies = frozenset(post_fields)


@register
class ComputeEnvScore(V3Contract):
    qualname = "CVSS3.compute_environmental_score"
    pre_fields = ()
    post_fields = ("modified_isc_base", "modified_isc", "modified_esc", "environmental_score")
    modifies = frozenset(post_fields)


class ModifiedIsc(V3Contract):
    pre_fields = ("modified_isc_base",)
    modifies = frozenset(["modified_isc"])
    which = None

    def check_return(self, ctx, value):
        o, v = ctx.data["self"], ctx.data["v3"]
        ctx.prove("post:modified_isc==%s" % self.which,
                  enc_matches(o.fields.get("modified_isc"), v.spec(self.which + "_enc")),
                  "self.modified_isc is the %s modified impact" % self.which)

    def effect(self, eng, st, args, kwargs):
        o = args[0]
        v = view_of(eng, st, o)
        st.prove("%s/pre@call:modified_isc_base" % self.oid,
                 di_matches(o.fields.get("modified_isc_base"), v.spec("miss"), max_scale=12))
        eng.set_attr(o, "modified_isc", enc_value(v.spec(self.which + "_enc")), st)
        return None


@register
class ModifiedIsc30(ModifiedIsc):
    qualname = "CVSS3.compute_modified_isc_30"
    which = "mimpact30"


@register
class ModifiedIsc31(ModifiedIsc):
    qualname = "CVSS3.compute_modified_isc"
    which = "mimpact31"


@register
class GetValue(V3Contract):
    qualname = "CVSS3.get_value"
    cases = tuple({"abbreviation": m} for m in v3.ORDER)
    modifies = frozenset()

    def setup(self, ctx):
        args, kw = V3Contract.setup(self, ctx)
        return args + [ctx.case["abbreviation"]], kw

    def check_return(self, ctx, value):
        v = ctx.data["v3"]
        abbr = ctx.case["abbreviation"]
        w = v.weight(abbr)
        if w is None:
            ctx.prove("post:none", value is None, "get_value(%s) is None (Scope has no weight)" % abbr)
        else:
            ctx.prove("post:weight", di_matches(value, w, max_scale=2),
                      "get_value(%s) is the specification weight of the effective value" % abbr)

    def effect(self, eng, st, args, kwargs):
        o = args[0]
        abbr = args[1] if len(args) > 1 else kwargs.get("abbreviation")
        if not isinstance(abbr, str) or abbr not in v3.VALUES:
            return NotImplemented
        v = view_of(eng, st, o)
        w = v.weight(abbr)
        if w is None:
            return None
        return lift(frac_to_di(2), w)


@register
class HandleScope(V3Contract):
    qualname = "CVSS3.handle_scope"
    phase = "parsed"
    modifies = frozenset(["scope", "modified_scope"])

    def check_return(self, ctx, value):
        o, v = ctx.data["self"], ctx.data["v3"]
        ctx.prove("post:scope", values_equal(o.fields.get("scope"), mk_str(v.o.get("S"))), "scope == O[S]")
        ctx.prove("post:modified_scope", values_equal(o.fields.get("modified_scope"), v.mscope_str()),
                  "modified_scope is MS unless absent/X, then S")

    def effect(self, eng, st, args, kwargs):
        o = args[0]
        v = view_of(eng, st, o)
        eng.set_attr(o, "scope", mk_str(v.o.get("S")), st)
        eng.set_attr(o, "modified_scope", v.mscope_str(), st)
        return None


@register
class AddMissingOptional(V3Contract):
    qualname = "CVSS3.add_missing_optional"
    phase = "scoped"
    modifies = frozenset(["original_metrics", "metrics"])

    def setup(self, ctx):
        args, kw = V3Contract.setup(self, ctx)
        ctx.data["frozen_maps"] = []
        return args, kw

    def check_return(self, ctx, value):
        o, v = ctx.data["self"], ctx.data["v3"]
        om, m = o.fields.get("original_metrics"), o.fields.get("metrics")
        ok = isinstance(om, SMap) and isinstance(m, SMap)
        if not ok:
            ctx.fail("post:maps", "original_metrics / metrics are not metric maps after the call")
            return
        ctx.prove("post:original==O", map_equal(om.dom, om.val, v.o.dom, v.o.val, v3.ORDER),
                  "original_metrics is a copy of the parsed map")
        fd, fv_ = fill_map(v.o)
        ctx.prove("post:metrics==Fill(O)", map_equal(m.dom, m.val, fd, fv_, v3.ORDER),
                  "absent or X modified metrics take their base metric's value")
        ctx.prove("post:distinct-objects", om is not m, "original_metrics does not alias metrics")

    def effect(self, eng, st, args, kwargs):
        o = args[0]
        v = view_of(eng, st, o)
        fd, fv_ = fill_map(v.o)
        eng.set_attr(o, "original_metrics", SMap(v.o.dom, v.o.val, None, "original_metrics"), st)
        eng.set_attr(o, "metrics", SMap(fd, fv_, None, "metrics"), st)
        return None


@register
class Scores(V3Contract):
    qualname = "CVSS3.scores"
    phase = "done"
    modifies = frozenset()

    def check_return(self, ctx, value):
        v = ctx.data["v3"]
        if not (isinstance(value, tuple) and len(value) == 3):
            ctx.fail("post:shape", "scores() does not return a 3-tuple")
            return
        for x, n in zip(value, ("base", "temporal", "env")):
            ctx.prove("post:%s" % n, float_matches(x, v.spec(n)),
                      "scores() reports float(%s score of the specification)" % n)

    def effect(self, eng, st, args, kwargs):
        v = view_of(eng, st, args[0])
        conv = lambda x: float(x)  # noqa
        return tuple(lift(lambda x: x.numerator / x.denominator, v.spec(n)) for n in ("base", "temporal", "env"))
