"""
Contract on cvss/parser.py::parse_cvss_from_text (C13).

  totality       no exception escapes, for any text (relies on the constructors' raises clauses
                 and on the totality of __eq__, both proved in their own units)
  soundness      every object put into the result was built by CVSS2/CVSS3 from the current match
                 (a substring of the text by the findall contract A4), hence from a valid vector
                 by the constructor contract
  duplicate-free an object is appended only under the outcome `not in` of a membership test
  determinism    the result is built by appending in match order (no set, no hash order)
Completeness for delimited vectors is a family of regular-language lemmas (lemmas/regex.py) on
the pattern extracted from the current parser.py.
"""
from __future__ import annotations

import re

import z3

from pyvc.contract import Contract, register
from pyvc.interp import GList, OpaqueObjList, PyRaise, Unsupported
from pyvc.sym import SObj, SSeq, SStr, StrSort, eq_z3, fresh_name, fresh_str, lit

from . import init as _init  # noqa: F401  (constructor effects)

f_match = z3.Function("findall_match", StrSort, z3.IntSort(), StrSort)
f_nmatch = z3.Function("findall_count", StrSort, z3.IntSort())


class PatternObj(object):
    def __init__(self, pattern, flags):
        self.pattern = pattern
        self.flags = flags


@register
class ParseFromText(Contract):
    module, qualname = "parser", "parse_cvss_from_text"
    modifies = frozenset()

    def setup(self, ctx):
        text = fresh_str("text")
        ctx.data["text"] = text
        ctx.data["patterns"] = []
        ctx.data["result_lists"] = []
        ctx.data["current_match"] = None
        ctx.engine.model_terms.append(("text", text.z))
        return [text], {}

    def hooks(self, ctx):
        def host_call(eng, st, fn, args, kwargs):
            if isinstance(getattr(fn, "__self__", None), re.Pattern):
                # a method of a pattern compiled when the module was loaded
                return self.method_call(ctx)(eng, st, fn.__self__, fn.__name__, args, kwargs)
            if fn is re.compile and args and isinstance(args[0], str):
                p = PatternObj(args[0], args[1] if len(args) > 1 else kwargs.get("flags", 0))
                ctx.data["patterns"].append(p.pattern)
                return True, p
            if fn in (re.findall, re.search, re.match, re.finditer, re.fullmatch, re.sub, re.split):
                raise Unsupported("re.%s on an abstract string" % fn.__name__)
            return False, None

        def loop_invariant(eng, st, frame, seq, node):
            return TextLoop(ctx, eng, st, frame, seq)

        return {"host_call": host_call, "loop_invariant": loop_invariant, "method_call": self.method_call(ctx)}

    def method_call(self, ctx):
        def hook(eng, st, recv, name, args, kwargs):
            if isinstance(recv, re.Pattern):
                # a pattern compiled when the module was loaded (module-level constant)
                if recv.pattern not in ctx.data["patterns"]:
                    ctx.data["patterns"].append(recv.pattern)
                recv = PatternObj(recv.pattern, recv.flags)
            if isinstance(recv, PatternObj):
                if name == "findall" and len(args) == 1 and isinstance(args[0], SStr):
                    tz = args[0].z
                    n = f_nmatch(tz)
                    st.assume(n >= 0)
                    ctx.data["findall_on"] = args[0]
                    return True, SSeq(lambda i: f_match(tz, i), n, "matches")
                raise Unsupported("pattern.%s on an abstract string" % name)
            return False, None

        return hook

    def check_return(self, ctx, value):
        text = ctx.data["text"]
        ok_type = isinstance(value, (OpaqueObjList, GList, list))
        ctx.prove("post:returns-list", ok_type, "the result is the list built by the loop")
        fo = ctx.data.get("findall_on")
        ctx.prove("post:matches-of-text", fo is text, "candidates are the findall matches of the given text")
        ctx.prove("post:single-pattern", len(ctx.data["patterns"]) == 1, "exactly one candidate pattern is compiled")
        hash_events = [e for e in ctx.st.events if e[0] in ("hash-order", "hash")]
        ctx.prove("post:order-independent-of-hash", not hash_events, "the result order does not depend on hashing")


class TextLoop(object):
    """invariant of the candidate loop: the accumulator holds objects built from earlier matches"""

    def __init__(self, ctx, eng, st, frame, seq):
        self.ctx, self.eng, self.st, self.frame, self.seq = ctx, eng, st, frame, seq
        self.name = "parser.parse_cvss_from_text/loop0"
        self.acc_names = [k for k, v in frame.locals.items() if isinstance(v, (GList, list)) and not k.startswith("__")]

    def holds(self, i):
        return z3.BoolVal(True)

    def havoc(self):
        for k in self.acc_names:
            self.frame.locals[k] = OpaqueObjList(k, on_append=self.on_append)

    def enter_iteration(self, i):
        self.ctx.data["current_match"] = self.seq.at(i)

    def exit_loop(self):
        self.ctx.data["current_match"] = None

    def on_append(self, st, obj):
        cur = self.ctx.data.get("current_match")
        ok = isinstance(obj, SObj) and getattr(obj.cls, "name", "") in ("CVSS2", "CVSS3", "CVSS4") and cur is not None
        built_from = False
        if ok:
            v = obj.fields.get("vector")
            built_from = isinstance(v, SStr) and z3.is_true(z3.simplify(v.z == cur))
        st.prove("parser.parse_cvss_from_text/sound:appended-object-built-from-current-match", ok and built_from,
                 "an object enters the result only if a constructor accepted the current match")
        mem = [e for e in st.events if e[0] == "opaque-membership"]
        st.prove("parser.parse_cvss_from_text/dupfree:append-guarded-by-membership-test", bool(mem),
                 "an object is appended only after a membership test on the accumulator")
